//! Circuit generation, an independent clear-text evaluator, and a compact textual encoding.
use polytune::garble_lang::register_circuit::{And, Circuit, Input, Inst, Not, Op, Reg, Xor};
use rand::Rng;
use rand::seq::SliceRandom;
use rand_chacha::ChaCha8Rng;
use serde::{Deserialize, Serialize};

#[derive(Clone, Debug, Serialize, Deserialize, PartialEq)]
pub struct CircSpec {
    pub inputs: Vec<usize>,
    /// "i<party>.<input>><out>" | "a<x>,<y>><out>" | "x<x>,<y>><out>" | "n<x>><out>"
    pub insts: Vec<String>,
    pub outs: Vec<u32>,
    pub max_reg: usize,
    pub and_ops: usize,
}

impl CircSpec {
    pub fn from_circuit(c: &Circuit) -> Self {
        CircSpec {
            inputs: c.input_regs.clone(),
            insts: c
                .insts
                .iter()
                .map(|i| match i.op {
                    Op::Input(Input { party, input }) => format!("i{party}.{input}>{}", i.out.0),
                    Op::And(And(x, y)) => format!("a{},{}>{}", x.0, y.0, i.out.0),
                    Op::Xor(Xor(x, y)) => format!("x{},{}>{}", x.0, y.0, i.out.0),
                    Op::Not(Not(x)) => format!("n{}>{}", x.0, i.out.0),
                })
                .collect(),
            outs: c.output_regs.iter().map(|r| r.0).collect(),
            max_reg: c.max_reg_count,
            and_ops: c.and_ops,
        }
    }

    pub fn to_circuit(&self) -> Circuit {
        let insts = self
            .insts
            .iter()
            .map(|s| {
                let (kind, rest) = s.split_at(1);
                let (args, out) = rest.split_once('>').expect("inst syntax");
                let out = Reg(out.parse().expect("out"));
                let op = match kind {
                    "i" => {
                        let (p, i) = args.split_once('.').expect("input syntax");
                        Op::Input(Input {
                            party: p.parse().unwrap(),
                            input: i.parse().unwrap(),
                        })
                    }
                    "n" => Op::Not(Not(Reg(args.parse().unwrap()))),
                    _ => {
                        let (x, y) = args.split_once(',').expect("binop syntax");
                        let (x, y) = (Reg(x.parse().unwrap()), Reg(y.parse().unwrap()));
                        if kind == "a" { Op::And(And(x, y)) } else { Op::Xor(Xor(x, y)) }
                    }
                };
                Inst { out, op }
            })
            .collect();
        Circuit {
            input_regs: self.inputs.clone(),
            insts,
            max_reg_count: self.max_reg,
            output_regs: self.outs.iter().map(|r| Reg(*r)).collect(),
            and_ops: self.and_ops,
        }
    }

    pub fn summary(&self) -> String {
        format!(
            "n={} inputs={:?} insts={} ands={} regs={} outs={}",
            self.inputs.len(),
            self.inputs,
            self.insts.len(),
            self.and_ops,
            self.max_reg,
            self.outs.len()
        )
    }
}

/// Independent evaluator (does not call `Circuit::eval`).
pub fn eval_clear(c: &Circuit, inputs: &[Vec<bool>]) -> Vec<bool> {
    let mut regs = vec![false; c.max_reg_count.max(1)];
    for inst in &c.insts {
        let v = match inst.op {
            Op::Input(Input { party, input }) => inputs[party as usize][input as usize],
            Op::And(And(x, y)) => regs[x.0 as usize] && regs[y.0 as usize],
            Op::Xor(Xor(x, y)) => regs[x.0 as usize] != regs[y.0 as usize],
            Op::Not(Not(x)) => !regs[x.0 as usize],
        };
        regs[inst.out.0 as usize] = v;
    }
    c.output_regs.iter().map(|r| regs[r.0 as usize]).collect()
}

#[derive(Clone, Debug)]
pub struct GenParams {
    pub n: usize,
    /// total number of AND gates wanted (exact)
    pub ands: usize,
    /// other gates (xor / not) to mix in, roughly
    pub others: usize,
    pub max_inputs_per_party: usize,
    pub allow_zero_input_party: bool,
    pub reuse: bool,
    pub outs: usize,
}

/// A random valid register circuit: Input instructions first (party order permuted), then gates
/// with register reuse, NOT chains, x AND x, x XOR x, outputs that are inputs, duplicated outputs.
pub fn gen_circuit(rng: &mut ChaCha8Rng, g: &GenParams) -> Circuit {
    let n = g.n;
    let mut k: Vec<usize> = (0..n).map(|_| rng.random_range(1..=g.max_inputs_per_party.max(1))).collect();
    if g.allow_zero_input_party && n > 2 && rng.random_bool(0.3) {
        let z = rng.random_range(0..n);
        k[z] = 0;
    }
    // input instructions in permuted order
    let mut ins: Vec<(u32, u32)> = vec![];
    for (p, kp) in k.iter().enumerate() {
        for i in 0..*kp {
            ins.push((p as u32, i as u32));
        }
    }
    if rng.random_bool(0.5) {
        ins.shuffle(rng);
    }
    let mut insts: Vec<Inst> = ins
        .iter()
        .enumerate()
        .map(|(w, (p, i))| Inst {
            out: Reg(w as u32),
            op: Op::Input(Input { party: *p, input: *i }),
        })
        .collect();
    let num_in = insts.len() as u32;
    let mut set: Vec<u32> = (0..num_in).collect(); // registers that hold a value
    let mut next_reg = num_in;
    let total = g.ands + g.others;
    let mut kinds: Vec<u8> = vec![0; g.ands];
    for _ in 0..g.others {
        kinds.push(if rng.random_bool(0.6) { 1 } else { 2 });
    }
    kinds.shuffle(rng);
    let live_cap = if g.reuse { (num_in as usize + 4).max(6) } else { usize::MAX };
    for kind in kinds.iter().take(total) {
        let pick = |rng: &mut ChaCha8Rng, set: &Vec<u32>| set[rng.random_range(0..set.len())];
        let x = pick(rng, &set);
        let y = if rng.random_bool(0.1) { x } else { pick(rng, &set) };
        // output register: new, or reuse an existing one (possibly an operand)
        let out = if g.reuse && (set.len() >= live_cap || rng.random_bool(0.3)) {
            pick(rng, &set)
        } else {
            let r = next_reg;
            next_reg += 1;
            set.push(r);
            r
        };
        let op = match kind {
            0 => Op::And(And(Reg(x), Reg(y))),
            1 => Op::Xor(Xor(Reg(x), Reg(y))),
            _ => Op::Not(Not(Reg(x))),
        };
        insts.push(Inst { out: Reg(out), op });
    }
    let mut outs = vec![];
    let n_outs = g.outs.max(1);
    for _ in 0..n_outs {
        let r = if rng.random_bool(0.5) && next_reg > num_in {
            // prefer late registers
            let lo = set.len().saturating_sub(4);
            set[rng.random_range(lo..set.len())]
        } else {
            set[rng.random_range(0..set.len())]
        };
        outs.push(Reg(r));
        if rng.random_bool(0.15) {
            outs.push(Reg(r)); // duplicated output
        }
    }
    let slack = if rng.random_bool(0.2) { rng.random_range(1..3) } else { 0 };
    Circuit {
        input_regs: k,
        insts,
        max_reg_count: next_reg as usize + slack,
        output_regs: outs,
        and_ops: g.ands,
    }
}

pub fn bits_to_string(b: &[bool]) -> String {
    b.iter().map(|b| if *b { '1' } else { '0' }).collect()
}
pub fn string_to_bits(s: &str) -> Vec<bool> {
    s.chars().map(|c| c == '1').collect()
}

pub fn gen_inputs(rng: &mut ChaCha8Rng, c: &Circuit) -> Vec<Vec<bool>> {
    let mode = rng.random_range(0..6);
    c.input_regs
        .iter()
        .map(|k| {
            (0..*k)
                .map(|_| match mode {
                    0 => false,
                    1 => true,
                    _ => rng.random(),
                })
                .collect()
        })
        .collect()
}
