//! C03: tampering with authenticated values in the online phase makes the consuming victim abort.
use crate::checks::adversarial::*;
use crate::checks::c02::c02_oracle;
use crate::entropy;
use crate::framework::{CaseCx, CaseOut, Check, Tier, Violation};
use crate::mpcrun::{AdvMode, MpcRun, MpcSpec};
use crate::mutate::{LeafOp, MutSpec};
use crate::sim::{End, FaultKind, TapSpec};
use polytune::garble_lang::register_circuit::{And, Circuit, Not, Op, Xor};
use rand::Rng;
use serde::{Deserialize, Serialize};
use serde_json::{Value, json};
use std::collections::BTreeSet;

pub struct C03;

#[derive(Clone, Debug, Serialize, Deserialize)]
pub struct C03Sub {
    pub spec: MpcSpec,
    /// site kind, e.g. "wire-shares:mac"
    pub kind: String,
    /// honest parties that consume the altered value and must return Err
    pub victims: Vec<usize>,
}

fn rand_mask(rng: &mut rand_chacha::ChaCha8Rng) -> Vec<u8> {
    match rng.random_range(0..3) {
        0 => vec![1],
        1 => {
            let mut m = vec![0u8; 16];
            m[15] = 0x80;
            m
        }
        _ => (0..16).map(|_| rng.random()).collect(),
    }
}

/// Does a label offset on input register `w` reach an AND gate (through XOR / NOT)?
fn label_reaches_and(c: &Circuit, w: usize) -> bool {
    let mut taint = vec![false; c.max_reg_count.max(1)];
    for (i, inst) in c.insts.iter().enumerate() {
        let t = match inst.op {
            Op::Input(_) => i == w,
            Op::Not(Not(x)) => taint[x.0 as usize],
            Op::Xor(Xor(x, y)) => taint[x.0 as usize] ^ taint[y.0 as usize],
            Op::And(And(x, y)) => {
                if taint[x.0 as usize] || taint[y.0 as usize] {
                    return true;
                }
                false
            }
        };
        taint[inst.out.0 as usize] = t;
    }
    false
}

fn sub(cfg: &AttackCfg, r: &RefRun, site: &Site, m: MutSpec, kind: &str, victims: Vec<usize>) -> C03Sub {
    C03Sub {
        spec: attacked_spec(cfg, AdvMode::Scripted, vec![fault_at(cfg.c, site, FaultKind::Mutate(m))], vec![], None, &r.decisions),
        kind: kind.into(),
        victims,
    }
}

pub fn enumerate(cfg: &AttackCfg, r: &RefRun, seed: u64) -> Vec<C03Sub> {
    let mut out = vec![];
    let mut rng = entropy::rng(seed, 0xc03, cfg.base.seed);
    let c = cfg.c;
    let spec = &cfg.base;
    let n = spec.n();
    let circuit = spec.circuit();
    let e = spec.p_eval;
    let uniq_outs: BTreeSet<u32> = spec.circ.outs.iter().copied().collect();
    let input_owner: Vec<(usize, usize)> = circuit
        .insts
        .iter()
        .enumerate()
        .filter_map(|(w, i)| match i.op {
            Op::Input(inp) => Some((w, inp.party as usize)),
            _ => None,
        })
        .collect();
    let and_insts: Vec<usize> = circuit
        .insts
        .iter()
        .enumerate()
        .filter(|(_, i)| matches!(i.op, Op::And(_)))
        .map(|(w, _)| w)
        .collect();
    // opened rows from the evaluator's probes in the reference run
    let mut opened = std::collections::BTreeMap::new();
    for p in &r.probes[e] {
        if p.site == "eval_row" && p.data.len() == 16 {
            let w = u64::from_le_bytes(p.data[..8].try_into().unwrap()) as usize;
            let i = u64::from_le_bytes(p.data[8..].try_into().unwrap()) as usize;
            opened.insert(w, i);
        }
    }
    for s in sites(&r.run, c) {
        match s.phase.as_str() {
            "wire shares" => {
                // (a) shares of the masks of the recipient's input wires
                for (w, owner) in &input_owner {
                    if *owner == s.to {
                        out.push(sub(cfg, r, &s, MutSpec::At { path: vec![*w, 0, 0], op: LeafOp::FlipBool }, "wire-shares:bit", vec![s.to]));
                        out.push(sub(cfg, r, &s, MutSpec::At { path: vec![*w, 0, 1], op: LeafOp::XorU128(rand_mask(&mut rng)) }, "wire-shares:mac", vec![s.to]));
                        out.push(sub(
                            cfg,
                            r,
                            &s,
                            MutSpec::Multi(vec![(vec![*w, 0, 0], LeafOp::FlipBool), (vec![*w, 0, 1], LeafOp::XorU128(rand_mask(&mut rng)))]),
                            "wire-shares:bit+mac",
                            vec![s.to],
                        ));
                        out.push(sub(cfg, r, &s, MutSpec::At { path: vec![*w], op: LeafOp::SetNone }, "wire-shares:absent", vec![s.to]));
                    }
                }
                let mine: Vec<usize> = input_owner.iter().filter(|(_, owner)| *owner == s.to).map(|(w, _)| *w).collect();
                if mine.len() >= 2 {
                    out.push(sub(cfg, r, &s, MutSpec::Multi(mine.iter().take(2).map(|w| (vec![*w, 0, 0], LeafOp::FlipBool)).collect()), "wire-shares:bits-of-two-wires", vec![s.to]));
                }
            }
            "output wire shares" => {
                for o in &uniq_outs {
                    let w = *o as usize;
                    out.push(sub(cfg, r, &s, MutSpec::At { path: vec![w, 0, 0], op: LeafOp::FlipBool }, "output-wire-shares:bit", vec![s.to]));
                    out.push(sub(cfg, r, &s, MutSpec::At { path: vec![w, 0, 1], op: LeafOp::XorU128(rand_mask(&mut rng)) }, "output-wire-shares:mac", vec![s.to]));
                    out.push(sub(cfg, r, &s, MutSpec::At { path: vec![w], op: LeafOp::SetNone }, "output-wire-shares:absent", vec![s.to]));
                }
                // checks that aggregate over the registers must not let an even number of altered
                // shares cancel: the bits of two (and of all) output registers flipped, MACs untouched
                let ws: Vec<usize> = uniq_outs.iter().map(|o| *o as usize).collect();
                if ws.len() >= 2 {
                    out.push(sub(cfg, r, &s, MutSpec::Multi(ws.iter().take(2).map(|w| (vec![*w, 0, 0], LeafOp::FlipBool)).collect()), "output-wire-shares:bits-of-two-registers", vec![s.to]));
                    if ws.len() >= 4 {
                        out.push(sub(cfg, r, &s, MutSpec::Multi(ws.iter().take(ws.len() / 2 * 2).map(|w| (vec![*w, 0, 0], LeafOp::FlipBool)).collect()), "output-wire-shares:bits-of-an-even-number-of-registers", vec![s.to]));
                    }
                }
            }
            "labels" if c != e => {
                for (w, _) in &input_owner {
                    let victims = if label_reaches_and(&circuit, *w) { vec![e] } else { vec![] };
                    out.push(sub(cfg, r, &s, MutSpec::At { path: vec![*w, 0], op: LeafOp::XorU128(rand_mask(&mut rng)) }, "labels:label", victims.clone()));
                    // an absent label: with a single garbler the evaluator has no label at all for the wire
                    let victims_absent = if n == 2 { vec![e] } else { victims };
                    out.push(sub(cfg, r, &s, MutSpec::At { path: vec![*w], op: LeafOp::SetNone }, "labels:absent", victims_absent));
                }
            }
            "preprocessed gates" if c != e => {
                for (g, w) in and_insts.iter().enumerate() {
                    let Some(i) = opened.get(w).copied() else { continue };
                    // any byte of the opened row
                    for _ in 0..2 {
                        let mut mask = vec![0u8; rng.random_range(0..40)];
                        mask.push(1 << rng.random_range(0..8));
                        out.push(sub(cfg, r, &s, MutSpec::At { path: vec![g, i], op: LeafOp::XorBytes(mask) }, "garbled-row:opened", vec![e]));
                    }
                    // a row that is not opened: nobody consumes it
                    let j = (i + 1 + rng.random_range(0..3)) % 4;
                    out.push(sub(cfg, r, &s, MutSpec::At { path: vec![g, j], op: LeafOp::XorBytes(vec![0, 0, 4]) }, "garbled-row:unopened", vec![]));
                    // all four rows
                    out.push(sub(
                        cfg,
                        r,
                        &s,
                        MutSpec::Multi((0..4).map(|row| (vec![g, row], LeafOp::XorBytes(vec![0, 1]))).collect()),
                        "garbled-row:all-four",
                        vec![e],
                    ));
                    // emptied row, and a row shorter than an authentication tag
                    out.push(sub(cfg, r, &s, MutSpec::At { path: vec![g, i], op: LeafOp::VecClear }, "garbled-row:emptied", vec![e]));
                    out.push(sub(cfg, r, &s, MutSpec::At { path: vec![g, i], op: LeafOp::VecResize(-(20 + rng.random_range(0..10) as i64)) }, "garbled-row:shorter-than-tag", vec![e]));
                    // truncated row (authentication tag cut)
                    out.push(sub(cfg, r, &s, MutSpec::At { path: vec![g, i], op: LeafOp::VecResize(-1) }, "garbled-row:truncated", vec![e]));
                }
            }
            "lambda" => {
                for o in &uniq_outs {
                    let w = *o as usize;
                    out.push(sub(cfg, r, &s, MutSpec::At { path: vec![w, 0, 0], op: LeafOp::FlipBool }, "lambda:value", vec![s.to]));
                    out.push(sub(cfg, r, &s, MutSpec::At { path: vec![w, 0, 1], op: LeafOp::XorU128(rand_mask(&mut rng)) }, "lambda:label", vec![s.to]));
                    out.push(sub(
                        cfg,
                        r,
                        &s,
                        MutSpec::Multi(vec![(vec![w, 0, 0], LeafOp::FlipBool), (vec![w, 0, 1], LeafOp::XorU128(rand_mask(&mut rng)))]),
                        "lambda:value+label",
                        vec![s.to],
                    ));
                    out.push(sub(cfg, r, &s, MutSpec::At { path: vec![w], op: LeafOp::SetNone }, "lambda:absent", vec![s.to]));
                }
            }
            "masked inputs" if n >= 3 => {
                // (g) equivocation: a different masked input for one recipient only
                for (w, owner) in &input_owner {
                    if *owner == c {
                        let victims: Vec<usize> = (0..n).filter(|p| *p != c).collect();
                        out.push(sub(cfg, r, &s, MutSpec::At { path: vec![*w, 0], op: LeafOp::FlipBool }, "masked-inputs:equivocation", victims));
                    }
                }
            }
            _ => {}
        }
    }
    // (h) a corrupted evaluator announces a masked value for an input wire of an honest party and
    // uses that value itself afterwards (two taps, live adversary): every honest party also holds
    // the owner's own announcement for that wire and must notice the conflict
    if c == e {
        for (w, owner) in &input_owner {
            if *owner == c {
                continue;
            }
            for x in [1u8, 2u8] {
                out.push(C03Sub {
                    spec: attacked_spec(
                        cfg,
                        AdvMode::Live,
                        vec![],
                        vec![
                            TapSpec { party: c, site: "masked_input_announce".into(), idx: Some(*w), occ: None, xor: vec![x] },
                            TapSpec { party: c, site: "masked_input_merged".into(), idx: Some(*w), occ: None, xor: vec![3] },
                        ],
                        None,
                        &r.decisions,
                    ),
                    kind: "masked-inputs:foreign-wire(tap)".into(),
                    victims: (0..n).filter(|p| *p != c).collect(),
                });
            }
        }
    }
    // (e) the share bit a garbler garbles into the rows, through the tap (live adversary)
    if c != e {
        for w in &and_insts {
            out.push(C03Sub {
                spec: attacked_spec(
                    cfg,
                    AdvMode::Live,
                    vec![],
                    vec![TapSpec {
                        party: c,
                        site: "garble_row_share".into(),
                        idx: Some(*w),
                        occ: None,
                        xor: vec![],
                    }],
                    None,
                    &r.decisions,
                ),
                kind: "garbled-row:share-bit(tap)".into(),
                victims: vec![e],
            });
        }
    }
    out
}

pub fn c03_oracle(s: &C03Sub, run: &MpcRun) -> Vec<Violation> {
    let mut v = vec![];
    let what = describe_fault(&s.spec);
    for &h in &s.victims {
        match &run.res.ends[h] {
            End::Err(_) => {}
            other => v.push(mk_violation(
                "consuming-victim-did-not-abort",
                format!("no-abort:{}", s.kind),
                format!(
                    "site {}: honest party {h} consumes the altered value but ended with {} instead of Err [{what}]",
                    s.kind,
                    other.summary()
                ),
                &s.spec,
            )),
        }
    }
    // in any case nobody may accept a wrong value
    for mut x in c02_oracle(&s.spec, run) {
        x.key = format!("{}:{}", x.key, s.kind);
        v.push(x);
    }
    // re-wrap the replay spec so that replay knows kind and victims
    for x in v.iter_mut() {
        x.spec = serde_json::to_value(s).unwrap();
    }
    v
}

fn effective(s: &C03Sub, run: &MpcRun) -> bool {
    if s.spec.taps.is_empty() { fault_effective(run) } else { run.res.tap_fired > 0 }
}

impl Check for C03 {
    fn id(&self) -> &'static str {
        "C03"
    }
    fn level(&self) -> &'static str {
        "fault_enumeration"
    }
    fn rule(&self) -> String {
        "for each attack configuration (n in {2,3}, corrupted garbler or evaluator, honest victims in both roles) every authenticated field of every online-phase message is altered, one per simulated run: 'wire shares' bit / MAC / both at every input register of the recipient; 'output wire shares' bit / MAC at every output register and recipient; 'labels' label at every input wire; 'preprocessed gates' a random byte of the row the evaluator opens (row index known from a probe in the bit-identical reference run), an unopened row, all four rows, a truncated / emptied / shorter-than-tag row; the share bit garbled into the rows (tap at the live garbler: the row still decrypts, the MAC check must fire); 'lambda' value / label / both at every output register and recipient; 'masked inputs' equivocation to one recipient (n=3); a corrupted evaluator announcing a masked value for an honest party's input wire and using it itself (two taps, live). Oracle: the honest party that consumes the altered value (computed by data flow, e.g. a label offset reaching an AND gate through XOR/NOT) returns Err; nobody returns a value outside the C02 set. evaluations = attacked runs; distinct = (configuration, site, field) with an effective fault".into()
    }
    fn assumptions(&self) -> Vec<String> {
        vec![
            "scripted adversary for message fields (victim's view bit-identical to the reference up to the altered field), live adversary + tap for the garbled share bit".into(),
            "for positions nobody consumes only the wrong-output oracle applies".into(),
        ]
    }
    fn cases(&self, tier: Tier, seed: u64) -> Vec<Value> {
        let k = match tier {
            Tier::Quick => 32,
            Tier::Thorough => 640,
        };
        (0..k).map(|k| json!({"seed": seed, "k": k})).collect()
    }
    fn run_case(&self, case: &Value, cx: &CaseCx) -> CaseOut {
        let mut out = CaseOut::default();
        let seed = case["seed"].as_u64().unwrap();
        let k = case["k"].as_u64().unwrap();
        let n = if k % 2 == 0 { 2 } else { 3 };
        let c_is_eval = (k / 2) % 3 == 0;
        let cfg = gen_attack_cfg(seed, 300 + k, n, c_is_eval, 2 + (k % 3) as usize);
        let r = reference(&cfg);
        if !r.ok {
            out.violations.push(Violation {
                class: "harness-error".into(),
                detail: format!("reference run failed: {:?}", r.ends),
                key: "reference".into(),
                spec: serde_json::to_value(&cfg.base).unwrap(),
            });
            return out;
        }
        for s in enumerate(&cfg, &r, seed) {
            cx.begin(&serde_json::to_value(&s).unwrap());
            let run = run_attack(&s.spec, Some(r.run.clone()));
            out.evals += 1;
            out.sim_steps += run.res.steps;
            out.merge_fired(&run.res.fired);
            if !effective(&s, &run) {
                out.count("fault_without_effect", 1);
                continue;
            }
            out.count(&format!("site:{}", s.kind), 1);
            if s.victims.is_empty() {
                out.count("sites_without_consumer", 1);
            }
            out.distinct.push(entropy::fnv(0, serde_json::to_string(&(&s.spec.faults, &s.spec.taps, cfg.base.seed)).unwrap().as_bytes()));
            count_honest_errs(&mut out, &s.spec, &run);
            out.violations.extend(c03_oracle(&s, &run));
            if out.samples.is_empty() && !s.victims.is_empty() {
                out.samples.push(json!({"configuration": cfg.base.sample(), "corrupted": cfg.c, "site": s.kind, "fault": describe_fault(&s.spec), "victims": s.victims,
                    "results": run.res.ends.iter().map(|e| e.summary()).collect::<Vec<_>>()}));
            }
        }
        out
    }
    fn replay(&self, spec: &Value) -> Vec<Violation> {
        let Ok(s) = serde_json::from_value::<C03Sub>(spec.clone()) else { return vec![] };
        let run = run_attack(&s.spec, None);
        c03_oracle(&s, &run)
    }
}
