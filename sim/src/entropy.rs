//! The randomness seam: `getrandom 0.3` custom backend fed from a thread-local ChaCha8 stream.
//!
//! Every party thread of a simulated run seeds its own stream from (run seed, party), so a
//! party's coins are a function of the run seed and its index only. `rand`'s `ThreadRng`
//! (used by `rand::random`, `AesRng::new`, ...) is thread-local and reseeds from here, and
//! each simulated run uses fresh OS threads, so nothing leaks from run to run.
use rand::{RngCore, SeedableRng};
use rand_chacha::ChaCha8Rng;
use std::cell::RefCell;
use std::sync::atomic::{AtomicU64, Ordering};

thread_local! {
    static ENTROPY: RefCell<Option<ChaCha8Rng>> = const { RefCell::new(None) };
    static DRAWN: std::cell::Cell<u64> = const { std::cell::Cell::new(0) };
}

/// Number of bytes served to threads that never seeded a stream (should stay 0 in party threads).
pub static UNSEEDED_BYTES: AtomicU64 = AtomicU64::new(0);

pub fn seed_thread(run_seed: u64, lane: u64) {
    let mut s = [0u8; 32];
    s[..8].copy_from_slice(&run_seed.to_le_bytes());
    s[8..16].copy_from_slice(&lane.to_le_bytes());
    s[16..24].copy_from_slice(b"polysim\0");
    ENTROPY.with(|e| *e.borrow_mut() = Some(ChaCha8Rng::from_seed(s)));
    DRAWN.with(|d| d.set(0));
}

pub fn drawn() -> u64 {
    DRAWN.with(|d| d.get())
}

#[unsafe(no_mangle)]
unsafe extern "Rust" fn __getrandom_v03_custom(
    dest: *mut u8,
    len: usize,
) -> Result<(), getrandom::Error> {
    // SAFETY: getrandom guarantees dest points to len writable bytes.
    let buf = unsafe { std::slice::from_raw_parts_mut(dest, len) };
    ENTROPY.with(|e| {
        let mut e = e.borrow_mut();
        match e.as_mut() {
            Some(r) => r.fill_bytes(buf),
            None => {
                // A thread outside the simulation (e.g. std's hash seeds do not come here; this
                // is only hit by harness code that forgot to seed). Deterministic filler.
                UNSEEDED_BYTES.fetch_add(len as u64, Ordering::Relaxed);
                let mut r = ChaCha8Rng::seed_from_u64(0x5eed_0000 ^ len as u64);
                r.fill_bytes(buf);
            }
        }
    });
    DRAWN.with(|d| d.set(d.get() + len as u64));
    Ok(())
}

/// splitmix64: cheap, well-mixed derivation of sub-seeds from (seed, domain, index).
pub fn mix(seed: u64, domain: u64, index: u64) -> u64 {
    let mut z = seed
        .wrapping_add(domain.wrapping_mul(0x9E37_79B9_7F4A_7C15))
        .wrapping_add(index.wrapping_mul(0xD1B5_4A32_D192_ED03))
        .wrapping_add(0x9E37_79B9_7F4A_7C15);
    z = (z ^ (z >> 30)).wrapping_mul(0xBF58_476D_1CE4_E5B9);
    z = (z ^ (z >> 27)).wrapping_mul(0x94D0_49BB_1331_11EB);
    z ^ (z >> 31)
}

pub fn rng(seed: u64, domain: u64, index: u64) -> ChaCha8Rng {
    ChaCha8Rng::seed_from_u64(mix(seed, domain, index))
}

pub fn fnv(h: u64, bytes: &[u8]) -> u64 {
    let mut h = if h == 0 { 0xcbf2_9ce4_8422_2325 } else { h };
    for b in bytes {
        h = (h ^ *b as u64).wrapping_mul(0x0000_0100_0000_01b3);
    }
    h
}
