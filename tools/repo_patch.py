#!/usr/bin/env python3
"""Apply one exact-text replacement to a file in /repo, build, and commit it (used for hook and fix commits).
usage: repo_patch.py <spec.json>   with {"path":..., "old":..., "new":..., "msg":..., "build": "cargo build --offline"}"""
import json, subprocess, sys
spec = json.load(open(sys.argv[1]))
items = spec if isinstance(spec, list) else [spec]
for it in items:
    path = '/repo/' + it['path']
    s = open(path).read()
    assert s.count(it['old']) == 1, (path, it['old'][:60], s.count(it['old']))
    open(path, 'w').write(s.replace(it['old'], it['new']))
    r = subprocess.run(it.get('build', 'cargo build --offline --workspace') + " 2>&1 | grep -E '^error' -A8", shell=True,
                       capture_output=True, text=True, cwd='/repo')
    if r.stdout.strip():
        print(r.stdout)
        subprocess.check_call(['git', 'checkout', '--', it['path']], cwd='/repo')
        sys.exit(1)
    subprocess.check_call(['git', 'commit', '-qam', it['msg']], cwd='/repo')
    print(subprocess.check_output(['git', 'log', '--oneline', '-1'], text=True, cwd='/repo').strip())
