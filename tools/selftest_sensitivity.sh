#!/bin/bash
# Sensitivity self-test: every seeded change under /verif/seeded/<id>/ (patch.diff + meta.json with
# "caught_by") is applied to a scratch worktree of /repo's HEAD and the first check named in caught_by
# is run against it (quick tier, POLYSIM_REPO shadow); it must exit 1. /repo is never touched.
# usage: selftest_sensitivity.sh [id ...]    result table: /verif/seeded/SENSITIVITY.md
cd /verif || exit 2
ids="$@"
[ -z "$ids" ] && ids=$(ls seeded | grep -v "own-mutants\|SENSITIVITY")
out=/verif/seeded/SENSITIVITY.md
echo "| seeded change | check | exit | first violation |" > $out.tmp
echo "|---|---|---|---|" >> $out.tmp
fail=0
for id in $ids; do
  [ -f seeded/$id/patch.diff ] && [ -f seeded/$id/meta.json ] || continue
  chk=$(python3 -c "import json,re;m=json.load(open('/verif/seeded/$id/meta.json'));c=m['caught_by'];print('' if c.startswith('not detected') else re.findall(r'C\d\d',c)[0])")
  [ -z "$chk" ] && { echo "| $id | - | - | recorded as not detected (DESIGN.md section 13) |" >> $out.tmp; continue; }
  line=$(tools/try_seeded.sh $id $chk)
  rc=$(echo "$line" | sed -n 's/.*exit=\([0-9]*\).*/\1/p' | head -1)
  viol=$(echo "$line" | sed -n 's/.*violation class=\([^ ]*\) key=\([^ ]*\).*/\1 (\2)/p' | head -1)
  echo "| $id | $chk | $rc | $viol |" >> $out.tmp
  [ "$rc" = "1" ] || { fail=1; echo "NOT DETECTED: $id by $chk (exit=$rc)"; }
done
mv $out.tmp $out
[ $fail = 0 ] && echo "all seeded changes detected" || echo "some seeded changes were not detected"
exit $fail
