#!/usr/bin/env python3
"""Sensitivity self-test with hand-written mutants (appendix C of DESIGN.md).

Each mutant is one exact-text replacement in /repo that compiles and keeps the existing tests
green in intent (weakened check, wrong role / index / constant). For each: apply to a scratch worktree of /repo's HEAD (/tmp/wt-mut, checked through POLYSIM_REPO), run the named quick checks, undo (git checkout), record whether some check exits 1.
usage: own_mutants.py [id ...]     results -> /verif/seeded/own-mutants/results.json
"""
import json, subprocess, sys, os

P = 'src/mpc/protocol.rs'
F = 'src/mpc/faand.rs'
K = 'src/ot_core/kos.rs'
S = 'crates/polytune-server-core/src/state.rs'
B = 'src/utils/file_or_mem_buf.rs'
A = 'crates/polytune-http-server/src/api.rs'

M = [
 # id, file, old, new, checks, what
 ("m-c01-xorkey0", P, "(&mac_r_key_s_1 ^ &mac_r_y_key_s_y).xor_key(p_eval, delta),", "(&mac_r_key_s_1 ^ &mac_r_y_key_s_y).xor_key(0, delta),", ["C01"], "garbler assumes the evaluator is party 0"),
 ("m-c01-dup-outputs", P, "            for &out in &unqiue_output_regs {\n                let output_wire = &output_wire_shares[p][out];", "            for &out in circ.output_regs.iter() {\n                let output_wire = &output_wire_shares[p][out];", ["C01"], "output shares XORed once per (possibly duplicated) output register"),
 ("m-c01-chunk-remainder", P, "    if remainder != 0 {\n        Box::new(iter.chain(Some(remainder)))", "    if remainder > 1 {\n        Box::new(iter.chain(Some(remainder)))", ["C01"], "chunk_size_iter drops a remainder chunk of size 1"),
 ("m-c05-shares-to-all", P, "    try_join_all(\n        p_out\n            .iter()\n            .copied()\n            .filter(|p| *p != p_own)\n            .map(async |p_out| {\n                // TODO rework this to not allocate max_reg_count but only output size\n                //  see https://github.com/sine-fdn/polytune/issues/113\n                let mut outputs", "    try_join_all(\n        (0..p_max)\n            .filter(|p| *p != p_own)\n            .map(async |p_out| {\n                // TODO rework this to not allocate max_reg_count but only output size\n                //  see https://github.com/sine-fdn/polytune/issues/113\n                let mut outputs", ["C05"], "output wire shares sent to every party"),
 ("m-c05-lambda-all-regs", P, "                    for &out in &unqiue_output_regs {\n                        wires_and_labels[out] = Some((values[out], labels_eval[out][p_out]));\n                    }", "                    for (out, v) in values.iter().enumerate() {\n                        if !labels_eval[out].is_empty() {\n                            wires_and_labels[out] = Some((*v, labels_eval[out][p_out]));\n                        }\n                    }", ["C05"], "lambda filled for every register"),
 ("m-c06-const-delta", P, "        delta = Delta(random());", "        delta = Delta(0x1234_5678_9abc_def0_0fed_cba9_8765_4321);", ["C06"], "global key constant"),
 ("m-c06-no-own-share", P, "            let mut masked_input = *input ^ own_share;", "            let _ = own_share;\n            let mut masked_input = *input;", ["C06", "C01"], "own mask share left out of the masked input"),
 ("m-c09-varint", 'src/utils/serde.rs', "    bincode::serde::encode_to_vec(val, bincode::config::legacy())\n}", "    bincode::serde::encode_to_vec(val, bincode::config::standard())\n}", ["C09", "C01"], "varint encoding on the sending side only would not even decode; both sides:"),
 ("m-c10-combine", F, "    let zbit = z1.0 ^ z2.0 ^ d & x2.0;", "    let zbit = z1.0 ^ z2.0;", ["C10", "C01"], "combine_two_leaky_ands drops d & x2 from the bit"),
 ("m-c12-send-then-recv", 'src/channel.rs', "    let (_, responses) = try_join(send_fut, recv_fut).await?;\n    Ok(responses)\n}\n\n/// Scatters", "    send_fut.await?;\n    let responses = recv_fut.await?;\n    Ok(responses)\n}\n\n/// Scatters", ["C12"], "unverified_broadcast awaits all sends before receiving (deadlock on 1-slot links)"),
 ("m-c19-no-seek", B, "impl<'a, T> Drop for Iter<'a, T> {\n    fn drop(&mut self) {\n        if let Self::ChunkedTmpFile { read, .. } = self {\n            read.get_mut()\n                .seek(SeekFrom::End(0))\n                .expect(\"unable to reset seek position\");\n        }\n    }\n}", "impl<'a, T> Drop for Iter<'a, T> {\n    fn drop(&mut self) {}\n}", ["C19"], "item iterator no longer seeks back to the end: append after a partial read overwrites"),
 ("m-c19-mem-chunks", B, "                iter: data.chunks(size),", "                iter: data.chunks(size + 1),", ["C19", "C01"], "memory variant re-chunks with size + 1"),
 ("m-c03-inputmac", P, "                    if mac != key ^ (other_share & delta) {\n                        return Err(MpcError::InvalidInputMacForInst(w).into());\n                    } else {\n                        masked_input ^= other_share;\n                    }", "                    let _ = (mac, key);\n                    masked_input ^= other_share;", ["C03"], "input mask share MAC not checked"),
 ("m-c03-outputmac", P, "                    if *mac_r != key_r ^ (*r & delta) {\n                        return Err(MpcError::InvalidOutputMac(out).into());\n                    } else if let", "                    if false {\n                        return Err(MpcError::InvalidOutputMac(out).into());\n                    } else if let", ["C03", "C02"], "output mask share MAC not checked"),
 ("m-c03-rowmac", P, "                        if mac_r_for_eval != *key_r ^ (r & delta) {\n                            return Err(MpcError::InvalidInputMacForInst(w).into());\n                        }", "                        let _ = mac_r_for_eval;", ["C03"], "MAC of the share inside the opened garbled row not checked"),
 ("m-c03-conflicting-mask", P, "                if masked_input.is_some() {\n                    return Err(MpcError::ConflictingInputMask(w).into());\n                }", "", ["C03", "C02", "C08"], "conflicting masked inputs accepted (last writer wins)"),
 ("m-c04-abit", F, "            if (*xj && *xjmac != xjkey ^ delta.0) || (!*xj && *xjmac != xjkey) {\n                return Err(Error::ABitWrongMAC);\n            }", "            let _ = (xj, xjmac, xjkey);", ["C04"], "aBit check removed"),
 ("m-c04-ashare", F, "            if xor_xk_macs[k][r] != di_bi_k[k][r] {\n                return Err(Error::AShareWrongMAC);\n            }", "", ["C04"], "aShare consistency check removed"),
 ("m-c04-rngopen", F, "        if !open_commitment(&commitments[k][0], &bufs_id[k]) {\n            return Err(Error::CommitmentCouldNotBeOpened);\n        }\n        buf_xor", "        buf_xor", ["C04"], "multi-party coin-toss opening not verified"),
 ("m-c04-laand-open", F, "            if !open_commitment(&commhi_k[k][ll], &hi_k.to_be_bytes()) {\n                return Err(Error::CommitmentCouldNotBeOpened);\n            }", "", ["C04"], "LaAND check-value commitment not verified"),
 ("m-c04-dvalue", F, "                if dmac.0 != expected_mac {\n                    return Err(Error::AANDWrongMAC);\n                }", "                let _ = expected_mac;", ["C04"], "d-value MAC not checked"),
 ("m-c04-kos", K, "        if check != (t0, t1) {\n            return Err(Error::KOSConsistencyCheckFailed);\n        }", "        let _ = (t0, t1, check);", ["C04"], "KOS consistency check removed"),
 ("m-c04-broadcast", F, "            } else if vec_k[j] != Some(hash_vecs[j]) {\n                return Err(Error::InconsistentBroadcast);\n            }", "            }", ["C04", "C03"], "broadcast echo comparison removed"),
 ("m-c04-join-comm-ver", F, "    let mut c0_c1_cm_k = broadcast(channel, i, n, \"fashare comm\", &c0_c1_cm).await?;\n\n    c0_c1_cm_k[i] = c0_c1_cm;\n\n    // 3 b) Pi broadcasts decommitment for macs.\n    let mut dm_k = broadcast(channel, i, n, \"fashare ver\", &dmvec).await?;", "    let (c0_c1_cm_k, dm_k) = futures_util::try_join!(\n        broadcast(channel, i, n, \"fashare comm\", &c0_c1_cm),\n        broadcast(channel, i, n, \"fashare ver\", &dmvec)\n    )?;\n    let (mut c0_c1_cm_k, mut dm_k) = (c0_c1_cm_k, dm_k);\n\n    c0_c1_cm_k[i] = c0_c1_cm;", ["C04", "C12"], "aShare commitment and decommitment broadcast concurrently (reveal before all commitments received)"),
 ("m-c13-stop-before-output", S, "                        let output = polytune::mpc(", "                        let _ = cmd_tx.send(PolicyCmd::Stop).await;\n                        let output = polytune::mpc(", ["C13"], "Stop sent to the actor before the MPC ran: channel senders dropped"),
 ("m-c13-check-consts", S, "        if self.consts.len() == typed_program.const_deps.len() {", "        if self.consts.len() >= typed_program.const_deps.len().saturating_sub(1) {", ["C13"], "program compiled before all constants arrived"),
 ("m-c15-running-no-notify", S, "            | PolicyStateKind::Running {\n                policy,\n                channel: Channel { client, .. },\n                ..\n            } => (client, policy),", "            => (client, policy),\n            PolicyStateKind::Running { .. } => {\n                let _ = ret.send(Ok(()));\n                return;\n            }", ["C15"], "cancel in state Running returns Ok without notifying the destination"),
 ("m-c16-skip-hash", S, "                    let scheduled_hash = policy.program_hash();\n                    if request.program_hash != scheduled_hash {\n                        ret_err(\n                            validate_ret,", "                    let scheduled_hash = policy.program_hash();\n                    if false && request.program_hash != scheduled_hash {\n                        ret_err(\n                            validate_ret,", ["C16"], "program hash not compared when validate arrived before schedule"),
 ("m-c17-drop-permit-early", S, "            debug!(\"followers are running\");", "            debug!(\"followers are running\");\n            self.permit = None;", ["C17"], "leader drops its permit right after the run requests"),
 ("m-c18-empty-pout", P, "    if p_out.is_empty() {\n        return Err(Error::MissingOutputParties);\n    }", "", ["C18"], "empty output set not rejected"),
 ("m-c18-input-len", P, "    if *expected_inputs != inputs.len() {", "    if *expected_inputs > inputs.len() {", ["C18"], "too many input bits accepted"),
 ("m-c08-unwrap-opt", P, "                    let Some((other_share, mac)) =\n                        other_shares.get(inst.out.0 as usize).copied().flatten()\n                    else {\n                        return Err(MpcError::InvalidInputMacForInst(w).into());\n                    };", "                    let (other_share, mac) = other_shares[inst.out.0 as usize].unwrap();", ["C08"], "unwrap on a received option"),
 ("m-c12-pipelined-toss", F, "    let commitments = broadcast(channel, i, n, \"RNG comm\", &comm).await?;\n\n    // Step 3) Send and receive decommitments concurrently for multi-party cointossing.\n    let bufs_vec = unverified_broadcast(channel, i, n, \"RNG ver\", &buf).await?;", "    // pipelined: send both messages first, then collect both answers\n    for p in (0..n).filter(|p| *p != i) {\n        send_to(channel, p, \"RNG comm\", &comm).await?;\n    }\n    for p in (0..n).filter(|p| *p != i) {\n        send_to(channel, p, \"RNG ver\", &buf).await?;\n    }\n    let mut commitments = vec![vec![]; n];\n    let mut bufs_vec = vec![vec![]; n];\n    for p in (0..n).filter(|p| *p != i) {\n        commitments[p] = recv_vec_from(channel, p, \"RNG comm\", 1).await?;\n    }\n    for p in (0..n).filter(|p| *p != i) {\n        bufs_vec[p] = recv_vec_from(channel, p, \"RNG ver\", 32).await?;\n    }", ["C12", "C04"], "multi-party coin toss sends commitment and opening back to back before receiving (deadlock on 1-slot links; reveal before commitments)"),
 ("m-http-own-semaphore", A, "PolicyState::new(self.client_builder.clone(), Arc::clone(&self.concurrency));", "PolicyState::new(self.client_builder.clone(), Arc::new(Semaphore::new(1)));", ["C17"], "http server: every state machine gets a semaphore of its own (leader concurrency limit not shared)"),
 ("m-http-run-creates", A, "    let state_handles = state.state_handles.read().await;\n    let handle = state_handles\n        .get(&run_request.computation_id)\n        .ok_or(ApiError::UnknownComputationId(run_request.computation_id))?;\n    handle.run(run_request).await.map_err(ApiError::from)", "    let handle = state.get_or_insert_handle(run_request.computation_id).await;\n    handle.run(run_request).await.map_err(ApiError::from)", ["C14", "C13"], "http server: a run request for an unknown computation creates a state machine"),
 ("m-http-msg-from", A, "        .mpc_msg(MpcMsg {\n            from,", "        .mpc_msg(MpcMsg {\n            from: from.min(1),", ["C13", "C17"], "http server: sender index of an MPC message clamped to 1 (n = 3: party 2's messages attributed to party 1)"),
 ("m-http-cancel-first", A, "        for (computation_id, handle) in handles.iter() {", "        for (computation_id, handle) in handles.iter().take(1) {", ["C17", "C15"], "http server: graceful shutdown cancels only one computation"),
 ("m-http-msg-status", 'crates/polytune-http-server/src/policy_client.rs', "        if status_code.is_success() {\n            Ok(())", "        if status_code.is_success() || status_code.is_client_error() {\n            Ok(())", ["C16", "C17", "C13"], "http client: 4xx answers (rejected validate / run / consts) treated as success"),
 ("m-c07-open-d1", F, "        di_bi[r] = if bi[r] { d1[r] } else { d0[r] };", "        di_bi[r] = if !bi[r] { d1[r] } else { d0[r] };", ["C07", "C01"], "aShare opens the wrong one of d0 / d1 (honest runs then fail)"),
]


def run(cmd, **kw):
    return subprocess.run(cmd, shell=True, capture_output=True, text=True, **kw)


WT = '/tmp/wt-mut'


def main():
    want = set(sys.argv[1:])
    if not os.path.isdir(WT):
        subprocess.check_call(['git', '-C', '/repo', 'worktree', 'add', '--detach', WT, 'HEAD'])
    head = subprocess.check_output(['git', '-C', '/repo', 'rev-parse', 'HEAD'], text=True).strip()
    run(f"git checkout -q -- . && git checkout -q --detach {head}", cwd=WT)
    os.makedirs('/verif/seeded/own-mutants', exist_ok=True)
    resp = '/verif/seeded/own-mutants/results.json'
    results = json.load(open(resp)) if os.path.exists(resp) else {}
    for (mid, path, old, new, checks, what) in M:
        if want and mid not in want:
            continue
        full = WT + '/' + path
        s = open(full).read()
        if s.count(old) != 1:
            print(f"{mid}: anchor found {s.count(old)} times - SKIPPED")
            results[mid] = {"status": "anchor-missing"}
            continue
        open(full, 'w').write(s.replace(old, new))
        try:
            b = run("cargo check --offline -p polytune -p polytune-server-core 2>&1 | grep -E '^error' -A6", cwd=WT)
            if b.stdout.strip():
                print(f"{mid}: does not compile\n{b.stdout[:600]}")
                results[mid] = {"status": "does-not-compile"}
                continue
            diff = run("git diff", cwd=WT).stdout
            caught = {}
            for c in checks:
                r = run(f"POLYSIM_REPO={WT} /verif/check {c} quick")
                line = next((l for l in r.stdout.splitlines() if l.startswith('violation')), '')
                caught[c] = {"exit": r.returncode, "first": line[:260]}
                print(f"{mid}: {c} exit={r.returncode} {line[:200]}")
            results[mid] = {"status": "ran", "what": what, "file": path, "checks": caught, "detected": any(v["exit"] == 1 for v in caught.values()), "diff": diff}
        finally:
            run("git checkout -- .", cwd=WT)
            json.dump(results, open(resp, 'w'), indent=1)
    und = [k for k, v in results.items() if isinstance(v, dict) and v.get("status") == "ran" and not v["detected"]]
    print("undetected:", und)


main()
