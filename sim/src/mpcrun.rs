//! A fully explicit, serialisable description of one simulated `mpc` execution, and its runner.
use crate::circ::{self, CircSpec};
use crate::sim::{self, Fault, Reference, RunCfg, RunResult, SchedSpec, SimChannel, TapSpec, Task, TaskOut};
use polytune::garble_lang::register_circuit::Circuit;
use serde::{Deserialize, Serialize};
use std::future::Future;
use std::path::PathBuf;
use std::pin::Pin;
use std::sync::Arc;
use std::sync::atomic::{AtomicU64, Ordering};

#[derive(Clone, Debug, Serialize, Deserialize, PartialEq)]
pub enum AdvMode {
    /// the corrupted party runs the real code; its outgoing messages are mutated
    Live,
    /// the corrupted party is a positional replay of the honest reference run (never aborts)
    Scripted,
}

#[derive(Clone, Debug, Serialize, Deserialize, PartialEq)]
pub struct MpcSpec {
    pub circ: CircSpec,
    /// one bit string per party
    pub inputs: Vec<String>,
    pub p_eval: usize,
    pub p_out: Vec<usize>,
    /// per party: spill to temp files
    pub tmp: Vec<bool>,
    /// link capacity (0 = unbounded)
    pub cap: usize,
    /// entropy seed of the run (per-party coins derive from it)
    pub seed: u64,
    pub sched: SchedSpec,
    #[serde(default, skip_serializing_if = "Vec::is_empty")]
    pub faults: Vec<Fault>,
    #[serde(default, skip_serializing_if = "Vec::is_empty")]
    pub taps: Vec<TapSpec>,
    #[serde(default, skip_serializing_if = "Option::is_none")]
    pub adversary: Option<(usize, AdvMode)>,
    #[serde(default, skip_serializing_if = "Option::is_none")]
    pub crash: Option<(usize, usize)>,
    #[serde(default = "yes")]
    pub send_to_closed_errs: bool,
    /// C18: per-party argument overrides (p_own, p_eval, p_out, input bit string)
    #[serde(default, skip_serializing_if = "Vec::is_empty")]
    pub overrides: Vec<ArgOverride>,
}
fn yes() -> bool {
    true
}

#[derive(Clone, Debug, Serialize, Deserialize, PartialEq, Default)]
pub struct ArgOverride {
    pub party: usize,
    #[serde(default)]
    pub p_own: Option<usize>,
    #[serde(default)]
    pub p_eval: Option<usize>,
    #[serde(default)]
    pub p_out: Option<Vec<usize>>,
    #[serde(default)]
    pub input: Option<String>,
}

impl MpcSpec {
    pub fn n(&self) -> usize {
        self.circ.inputs.len()
    }
    pub fn circuit(&self) -> Circuit {
        self.circ.to_circuit()
    }
    pub fn input_bits(&self) -> Vec<Vec<bool>> {
        self.inputs.iter().map(|s| circ::string_to_bits(s)).collect()
    }
    pub fn expected(&self) -> Vec<bool> {
        circ::eval_clear(&self.circuit(), &self.input_bits())
    }
    /// short form for evidence samples
    pub fn sample(&self) -> serde_json::Value {
        serde_json::json!({
            "circuit": self.circ.summary(),
            "inputs": self.inputs,
            "p_eval": self.p_eval,
            "p_out": self.p_out,
            "tmp": self.tmp,
            "cap": self.cap,
            "seed": self.seed,
            "strategy": format!("{:?}", self.sched.strategy),
            "faults": self.faults,
            "adversary": self.adversary,
        })
    }
}

static RUN_COUNTER: AtomicU64 = AtomicU64::new(0);

pub fn scratch_root() -> PathBuf {
    match std::env::var("POLYSIM_SCRATCH") {
        Ok(b) => PathBuf::from(b),
        Err(_) => crate::framework::verif_root().join("out").join("tmp"),
    }
}

pub struct MpcTask {
    pub circuit: Circuit,
    pub args: Vec<(usize, usize, Vec<usize>, Vec<bool>)>, // per thread: p_own, p_eval, p_out, input
    pub tmp_dirs: Vec<Option<PathBuf>>,
}

impl Task for MpcTask {
    fn run<'a>(&'a self, p: usize, ch: &'a SimChannel) -> Pin<Box<dyn Future<Output = TaskOut> + 'a>> {
        Box::pin(async move {
            let (p_own, p_eval, p_out, input) = &self.args[p];
            let r = polytune::mpc(
                ch,
                &self.circuit,
                input,
                *p_eval,
                *p_own,
                p_out,
                self.tmp_dirs[p].as_deref(),
            )
            .await;
            match r {
                Ok(v) => Ok(Box::new(v) as Box<dyn std::any::Any + Send>),
                Err(e) => Err(format!("{e:?}")),
            }
        })
    }
}

pub struct MpcRun {
    pub res: RunResult,
    /// files left in the temp directories after the run (must be empty)
    pub leftovers: Vec<String>,
}

fn build(spec: &MpcSpec) -> (Arc<MpcTask>, Option<PathBuf>) {
    let n = spec.n();
    let circuit = spec.circuit();
    let inputs = spec.input_bits();
    let mut args: Vec<(usize, usize, Vec<usize>, Vec<bool>)> = (0..n)
        .map(|p| (p, spec.p_eval, spec.p_out.clone(), inputs[p].clone()))
        .collect();
    for o in &spec.overrides {
        if o.party >= n {
            continue;
        }
        let a = &mut args[o.party];
        if let Some(x) = o.p_own {
            a.0 = x;
        }
        if let Some(x) = o.p_eval {
            a.1 = x;
        }
        if let Some(x) = &o.p_out {
            a.2 = x.clone();
        }
        if let Some(x) = &o.input {
            a.3 = circ::string_to_bits(x);
        }
    }
    let mut root = None;
    let mut tmp_dirs = vec![None; n];
    if spec.tmp.iter().any(|t| *t) {
        let id = RUN_COUNTER.fetch_add(1, Ordering::Relaxed);
        let dir = scratch_root().join(format!("{}-{}", std::process::id(), id));
        for p in 0..n {
            if spec.tmp.get(p).copied().unwrap_or(false) {
                let d = dir.join(format!("p{p}"));
                std::fs::create_dir_all(&d).expect("create scratch dir");
                tmp_dirs[p] = Some(d);
            }
        }
        root = Some(dir);
    }
    (
        Arc::new(MpcTask {
            circuit,
            args,
            tmp_dirs,
        }),
        root,
    )
}

fn cfg_of(spec: &MpcSpec, reference: Option<Arc<Reference>>, record: bool) -> RunCfg {
    let scripted = match (&spec.adversary, reference) {
        (Some((c, AdvMode::Scripted)), Some(r)) => Some((*c, r)),
        _ => None,
    };
    RunCfg {
        n: spec.n(),
        cap: spec.cap,
        seed: spec.seed,
        sched: spec.sched.clone(),
        faults: spec.faults.clone(),
        taps: spec.taps.clone(),
        scripted,
        crash: spec.crash,
        send_to_closed_errs: spec.send_to_closed_errs,
        max_steps: 5_000_000,
        record_events: record,
    }
}

fn finish(task: Arc<MpcTask>, root: Option<PathBuf>, res: RunResult) -> MpcRun {
    let mut leftovers = vec![];
    for d in task.tmp_dirs.iter().flatten() {
        if let Ok(rd) = std::fs::read_dir(d) {
            for e in rd.flatten() {
                leftovers.push(e.path().display().to_string());
            }
        }
    }
    if let Some(r) = root {
        let _ = std::fs::remove_dir_all(r);
    }
    MpcRun { res, leftovers }
}

/// Honest reference run of `spec` (faults, taps, crash and adversary ignored), events recorded.
pub fn reference_run(spec: &MpcSpec) -> MpcRun {
    let mut s = spec.clone();
    s.faults.clear();
    s.taps.clear();
    s.adversary = None;
    s.crash = None;
    let (task, root) = build(&s);
    let cfg = cfg_of(&s, None, true);
    let res = sim::run(&cfg, task.clone());
    finish(task, root, res)
}

/// Run `spec`. For a scripted adversary the honest reference run is produced first (same seed and
/// schedule) unless one is supplied.
pub fn run(spec: &MpcSpec, reference: Option<Arc<Reference>>) -> MpcRun {
    let reference = match (&spec.adversary, reference) {
        (Some((_, AdvMode::Scripted)), None) => Some(reference_run(spec).res.reference()),
        (_, r) => r,
    };
    let (task, root) = build(spec);
    let cfg = cfg_of(spec, reference, false);
    let res = sim::run(&cfg, task.clone());
    finish(task, root, res)
}

pub fn run_recorded(spec: &MpcSpec) -> MpcRun {
    let (task, root) = build(spec);
    let cfg = cfg_of(spec, None, true);
    let res = sim::run(&cfg, task.clone());
    finish(task, root, res)
}
