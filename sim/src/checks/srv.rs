//! C13-C17: the server-core policy state machines under simulator B.
use crate::entropy;
use crate::framework::{CaseCx, CaseOut, Check, Tier, Violation};
use crate::server::{self, Action, Injection, PolicySpec, RpcFault, ServerRun, ServerSpec, Verdict};
use polytune::garble_lang::literal::Literal;
use rand::Rng;
use rand::seq::SliceRandom;
use rand_chacha::ChaCha8Rng;
use serde::{Deserialize, Serialize};
use serde_json::{Value, json};
use std::collections::BTreeMap;

const SRV_REAL: &[&str] = &[
    "polytune-server-core (PolicyState state machine, handle, channel adapter)",
    "tokio (current_thread runtime, mpsc, oneshot, Notify, Semaphore, select!)",
    "garble_lang (type check, compile)",
    "polytune::mpc",
    "in the runs counted as runs_through_real_http_server_nodes: polytune-http-server (axum router, api.rs handlers and shared state, policy_client.rs HTTP client incl. URL construction, JSON bodies and status handling) - one node per party, requests leave through a reqwest middleware that parks them with the explorer",
];
const SRV_STUB: &[&str] = &[
    "RPC client between parties in the other runs (SimPolicyClient: every call parks until the explorer delivers / fails / duplicates it) together with the routing rules of api.rs (40-line router stub)",
    "sockets, the retry middleware and JWT signing of the HTTP server (server.rs: client(), service()) are never run",
    "output destination (recorded)",
    "compile thread (closure real, completion time an explorer event via the __verif spawner hook)",
    "entropy source, tokio select! seed",
];

fn viol(class: &str, key: &str, detail: String, spec: &Value) -> Violation {
    Violation {
        class: class.into(),
        detail,
        key: key.into(),
        spec: spec.clone(),
    }
}

pub fn gen_policy(rng: &mut ChaCha8Rng, n: usize, comp: u64, templates: &[u8]) -> PolicySpec {
    let template = templates[rng.random_range(0..templates.len())];
    let template = if template == 3 && n < 2 { 2 } else { template };
    PolicySpec {
        comp,
        template,
        leader: rng.random_range(0..n),
        inputs: (0..n).map(|_| rng.random()).collect(),
        dest: {
            let m = rng.random_range(0..4);
            (0..n)
                .map(|_| match m {
                    0 => true,
                    1 => false,
                    _ => rng.random(),
                })
                .collect()
        },
        const_k: rng.random(),
        template_at: vec![],
        leader_at: vec![],
    }
}

pub fn base_spec(rng: &mut ChaCha8Rng, n: usize, policies: Vec<PolicySpec>, concurrency: Vec<usize>, auto_msgs: bool) -> ServerSpec {
    ServerSpec {
        n,
        policies,
        concurrency,
        seed: rng.random(),
        explicit: vec![],
        faults: vec![],
        injections: vec![],
        auto_msgs,
        no_schedule: vec![],
        max_events: 20_000,
        gate_outputs: false,
        http: false,
        lazy_callers: false,
    }
}

fn lit(x: u8) -> String {
    format!("{}", Literal::from(x))
}

/// The C13 oracle for one computation (all parties scheduled compatible policies).
pub fn c13_oracle_comp(spec: &ServerSpec, run: &ServerRun, ps: &PolicySpec, sv: &Value, out: &mut Vec<Violation>) {
    let n = spec.n;
    let want = server::expected(ps.template, &ps.inputs, ps.const_k);
    for p in 0..n {
        let sched: Vec<_> = run.calls.iter().filter(|c| c.what == "schedule" && c.party == p && c.comp == ps.comp).collect();
        for c in &sched {
            if c.ok != Some(true) {
                out.push(viol(
                    "schedule-did-not-return-ok",
                    "schedule-did-not-return-ok",
                    format!("schedule of party {p} (computation {}) ended with {:?} {}", ps.comp, c.ok, c.detail.chars().take(200).collect::<String>()),
                    sv,
                ));
            }
        }
        let outs: Vec<_> = run.outputs.iter().filter(|o| o.party == p && o.comp == ps.comp).collect();
        if ps.dest[p] {
            if outs.len() != 1 {
                out.push(viol(
                    "output-count",
                    "output-count",
                    format!("party {p} (computation {}) has an output destination and was sent {} notifications: {:?}", ps.comp, outs.len(), outs.iter().map(|o| &o.result).collect::<Vec<_>>()),
                    sv,
                ));
            } else if let Some(w) = want {
                if outs[0].result != Ok(lit(w)) {
                    out.push(viol(
                        "wrong-result",
                        "wrong-result",
                        format!("party {p} (computation {}) was sent {:?}, the program evaluates to {} in the clear", ps.comp, outs[0].result, lit(w)),
                        sv,
                    ));
                }
            }
        } else if !outs.is_empty() {
            out.push(viol("output-without-destination", "output-without-destination", format!("party {p} has no destination but {} outputs were sent", outs.len()), sv));
        }
    }
}

pub fn common_oracle(spec: &ServerSpec, run: &ServerRun, sv: &Value, out: &mut Vec<Violation>, expect_all_stop: bool) {
    for p in &run.panics {
        let site = p.rsplit(" at ").next().unwrap_or("").trim_start_matches("/repo/");
        let file = site.rsplit_once(':').map(|x| x.0).unwrap_or(site);
        out.push(viol("panic", &format!("panic:{file}:{}", p.split(':').next().unwrap_or("").chars().take(40).collect::<String>()), format!("a task panicked: {p}"), sv));
    }
    if run.event_limit {
        out.push(viol("event-limit", "event-limit", "run did not finish within the event bound".into(), sv));
    }
    if expect_all_stop {
        if run.stalled {
            out.push(viol(
                "stall",
                "stall",
                format!("no event left but state machines still alive: {:?}; pending RPCs {:?}", run.stalled_machines, run.pending_at_end),
                sv,
            ));
        }
        for p in 0..spec.n {
            if run.permits[p] != spec.concurrency[p] {
                out.push(viol(
                    "permit-leaked",
                    "permit-leaked",
                    format!("party {p}: {} of {} concurrency permits available at quiescence", run.permits[p], spec.concurrency[p]),
                    sv,
                ));
            }
        }
    }
}

/// Simpler variants of a server scenario (for minimisation).
pub fn shrink_server(spec: &ServerSpec) -> Vec<ServerSpec> {
    let mut out = vec![];
    for i in 0..spec.faults.len() {
        let mut s = spec.clone();
        s.faults.remove(i);
        out.push(s);
    }
    if spec.injections.len() > 1 {
        for i in 0..spec.injections.len() {
            let mut s = spec.clone();
            s.injections.remove(i);
            out.push(s);
        }
    }
    if spec.policies.len() > 1 {
        for i in 0..spec.policies.len() {
            let mut s = spec.clone();
            let comp = s.policies[i].comp;
            if s.faults.iter().any(|f| f.comp == comp) || s.injections.iter().any(|j| format!("{:?}", j.action).contains(&format!("comp: {comp}"))) {
                continue;
            }
            s.policies.remove(i);
            out.push(s);
        }
    }
    if !spec.auto_msgs {
        let mut s = spec.clone();
        s.auto_msgs = true;
        s.explicit.retain(|d| !d.starts_with("msg"));
        out.push(s);
    }
    if !spec.explicit.is_empty() {
        let mut s = spec.clone();
        s.explicit.truncate(spec.explicit.len() / 2);
        out.push(s);
        let mut s = spec.clone();
        s.explicit.clear();
        out.push(s);
    }
    for (i, ps) in spec.policies.iter().enumerate() {
        if ps.template != 0 && ps.template_at.iter().all(|t| t.is_none()) {
            let mut s = spec.clone();
            s.policies[i].template = 0;
            out.push(s);
        }
        if ps.inputs.iter().any(|x| *x != 0) {
            let mut s = spec.clone();
            s.policies[i].inputs = vec![0; ps.inputs.len()];
            out.push(s);
        }
    }
    if spec.concurrency.iter().any(|c| *c > 1) {
        let mut s = spec.clone();
        s.concurrency = vec![1; spec.n];
        out.push(s);
    }
    out
}

fn shrink_server_value(spec: &Value) -> Vec<Value> {
    match serde_json::from_value::<ServerSpec>(spec.clone()) {
        Ok(s) => shrink_server(&s).into_iter().map(|x| serde_json::to_value(x).unwrap()).collect(),
        Err(_) => vec![],
    }
}

fn coord_hash(run: &ServerRun) -> u64 {
    let mut h = 0;
    for d in run.decisions.iter().filter(|d| !d.starts_with("msg")) {
        h = entropy::fnv(h, d.as_bytes());
    }
    h
}

fn sample_of(spec: &ServerSpec, run: &ServerRun) -> Value {
    json!({
        "n": spec.n, "policies": spec.policies, "concurrency": spec.concurrency, "auto_msgs": spec.auto_msgs,
        "faults": spec.faults, "injections": spec.injections,
        "coordination_events": run.decisions.iter().filter(|d| !d.starts_with("msg")).collect::<Vec<_>>(),
        "outputs": run.outputs.iter().map(|o| format!("p{} c{} {:?} @{}", o.party, o.comp, o.result, o.seq)).collect::<Vec<_>>(),
        "mpc_messages": run.msgs,
    })
}

// ---------------------------------------------------------------------------------------------
// C13

pub struct C13;

fn c13_oracle(spec: &ServerSpec, run: &ServerRun) -> Vec<Violation> {
    let sv = serde_json::to_value(spec).unwrap();
    let mut v = vec![];
    common_oracle(spec, run, &sv, &mut v, true);
    for ps in &spec.policies {
        c13_oracle_comp(spec, run, ps, &sv, &mut v);
    }
    v
}

impl Check for C13 {
    fn id(&self) -> &'static str {
        "C13"
    }
    fn level(&self) -> &'static str {
        "exploration"
    }
    fn rule(&self) -> String {
        "each evaluation is one simulated execution of n in {2,3} real PolicyState machines (one per party) on a seeded single-threaded tokio with paused clock: the explorer chooses the order of the schedule calls, of every validate / run / consts RPC delivery, of compile completions and (in a share of runs) of every single MPC msg delivery; every leader index; program templates without constants, with constants from one party and from two parties; output destination present or absent per party. Oracle: every schedule returns Ok, each party with a destination is sent exactly one result equal to the template's clear-text value, parties without destination none, every machine stops, no task panics, all permits back, no stall. in a seventh of the runs the callers of schedule are slow (each schedule future is polled once when the call is made and not again before the end of the run): the answer must wait for them; distinct = distinct sequences of coordination events (saturation is reported)".into()
    }
    fn assumptions(&self) -> Vec<String> {
        vec![
            "only interleavings reachable on a single-threaded runtime (races between tasks, not between instructions)".into(),
            "RPC transport reliable in this check (every verdict is Deliver)".into(),
        ]
    }
    fn real_components(&self) -> Vec<&'static str> {
        SRV_REAL.to_vec()
    }
    fn stub_components(&self) -> Vec<&'static str> {
        SRV_STUB.to_vec()
    }
    fn cases(&self, tier: Tier, seed: u64) -> Vec<Value> {
        let k = match tier {
            Tier::Quick => 160,
            Tier::Thorough => 8000,
        };
        (0..k).map(|k| json!({"seed": seed, "k": k})).collect()
    }
    fn run_case(&self, case: &Value, cx: &CaseCx) -> CaseOut {
        let seed = case["seed"].as_u64().unwrap();
        let k0 = case["k"].as_u64().unwrap();
        let mut out = CaseOut::default();
        for j in 0..10u64 {
            let k = k0 * 10 + j;
            let mut rng = entropy::rng(seed, 0xc13, k);
            let n = if k % 3 == 2 { 3 } else { 2 };
            let ps = gen_policy(&mut rng, n, 1, &[0, 1, 2, 3, 4]);
            let auto = k % 4 != 3;
            let mut spec = base_spec(&mut rng, n, vec![ps], vec![1; n], auto);
            // every third configuration runs through the real HTTP server nodes
            spec.http = k % 7 < 2;
            // slow callers of schedule in another share (polled once, then only at the end of the run)
            spec.lazy_callers = k % 7 == 3;
            cx.begin(&serde_json::to_value(&spec).unwrap());
            let run = server::run(&spec);
            if spec.http {
                out.count("runs_through_real_http_server_nodes", 1);
            }
            if spec.lazy_callers {
                out.count("runs_with_slow_schedule_callers", 1);
            }
            out.evals += 1;
            out.sim_steps += run.events;
            out.count(&format!("n={n}"), 1);
            out.count(&format!("leader={}", spec.policies[0].leader), 1);
            out.count(&format!("template={}", spec.policies[0].template), 1);
            out.count(if auto { "msgs=auto" } else { "msgs=explored" }, 1);
            out.count("mpc_messages", run.msgs);
            out.carry.push(json!({"n": n, "h": coord_hash(&run), "k": k}));
            out.distinct.push(coord_hash(&run) ^ entropy::mix(n as u64, spec.policies[0].leader as u64, spec.policies[0].template as u64));
            out.violations.extend(c13_oracle(&spec, &run));
            if out.samples.is_empty() {
                out.samples.push(sample_of(&spec, &run));
            }
        }
        out
    }
    fn shrink(&self, spec: &Value) -> Vec<Value> {
        shrink_server_value(spec)
    }
    fn replay(&self, spec: &Value) -> Vec<Violation> {
        match serde_json::from_value::<ServerSpec>(spec.clone()) {
            Ok(s) => c13_oracle(&s, &server::run(&s)),
            Err(_) => vec![],
        }
    }
    fn finish(&self, carries: &[Value], _tier: Tier) -> (Vec<Violation>, BTreeMap<String, Value>) {
        // saturation: how many new coordination orders appeared in the last quarter of the runs
        let mut m = BTreeMap::new();
        for n in [2u64, 3] {
            let mut items: Vec<(u64, u64)> = carries.iter().filter(|c| c["n"].as_u64() == Some(n)).map(|c| (c["k"].as_u64().unwrap(), c["h"].as_u64().unwrap())).collect();
            items.sort();
            let mut seen = std::collections::BTreeSet::new();
            let cut = items.len() * 3 / 4;
            let mut new_late = 0;
            for (i, (_, h)) in items.iter().enumerate() {
                if seen.insert(*h) && i >= cut {
                    new_late += 1;
                }
            }
            m.insert(format!("coordination_orders_n{n}"), json!({"runs": items.len(), "distinct": seen.len(), "new_in_last_quarter": new_late}));
        }
        (vec![], m)
    }
}

// ---------------------------------------------------------------------------------------------
// C16

pub struct C16;

#[derive(Clone, Debug, Serialize, Deserialize)]
struct C16Case {
    spec: ServerSpec,
    what: String,
    /// parties whose schedule call must end with an error
    must_err: Vec<usize>,
}

fn c16_oracle(c: &C16Case, run: &ServerRun) -> Vec<Violation> {
    let sv = serde_json::to_value(c).unwrap();
    let mut v = vec![];
    common_oracle(&c.spec, run, &sv, &mut v, false);
    // a re-submission that was issued before the party's own schedule request *is* its schedule
    // request (with the compatible program): nothing to judge then
    let resubmission_first = run.calls.iter().any(|d| {
        d.what == "dup-schedule" && run.calls.iter().any(|s| s.what == "schedule" && s.party == d.party && s.comp == d.comp && s.issued_seq >= d.issued_seq)
    });
    if resubmission_first {
        return v;
    }
    for &p in &c.must_err {
        for call in run.calls.iter().filter(|x| x.what == "schedule" && x.party == p) {
            if call.ok != Some(false) {
                v.push(viol(
                    "incompatible-policy-not-rejected",
                    &format!("incompatible-policy-not-rejected:{}", c.what.split(':').next().unwrap_or("")),
                    format!("{}: schedule of party {p} ended with {:?} (expected an error)", c.what, call.ok),
                    &sv,
                ));
            }
        }
    }
    if let Some(o) = run.outputs.iter().find(|o| o.result.is_ok()) {
        v.push(viol("successful-output-despite-mismatch", "successful-output-despite-mismatch", format!("{}: party {} was sent {:?}", c.what, o.party, o.result), &sv));
    }
    if run.msgs > 0 {
        v.push(viol("mpc-traffic-despite-mismatch", "mpc-traffic-despite-mismatch", format!("{}: {} MPC messages were exchanged", c.what, run.msgs), &sv));
    }
    v
}

/// Chooses the leader's and the mismatching follower's program: two of the plain templates, or a
/// near miss (programs made of the same characters that differ only in the position of a line
/// break after a comment; programs that differ only in their last characters).
fn mismatch_pair(rng: &mut ChaCha8Rng, ps: &mut PolicySpec) -> u8 {
    match rng.random_range(0..6) {
        0 => {
            ps.template = 10;
            11
        }
        1 => {
            ps.template = 11;
            10
        }
        2 => {
            ps.template = 0;
            12
        }
        3 => {
            ps.template = 12;
            0
        }
        _ => [0u8, 1, 4].into_iter().find(|t| *t != ps.template).unwrap(),
    }
}

fn c16_gen(seed: u64, k: u64) -> C16Case {
    let mut rng = entropy::rng(seed, 0xc16, k);
    let n = if k % 2 == 0 { 2 } else { 3 };
    let mut ps = gen_policy(&mut rng, n, 1, &[0, 1, 4]);
    ps.template_at = vec![None; n];
    ps.leader_at = vec![None; n];
    let leader = ps.leader;
    let followers: Vec<usize> = (0..n).filter(|p| *p != leader).collect();
    let f = followers[rng.random_range(0..followers.len())];
    let (what, must_err) = match k % 3 {
        0 => {
            // program mismatch at follower f
            let other = mismatch_pair(&mut rng, &mut ps);
            ps.template_at[f] = Some(other);
            (format!("program-mismatch: follower {f} has template {other}, leader template {}", ps.template), vec![f, leader])
        }
        1 if n == 3 => {
            // leader mismatch: follower f names the other follower as leader (still regards itself as follower)
            // ... or an index that differs from the leader's only above bit 31
            let g = if rng.random_bool(0.4) { leader + (1usize << 32) } else { followers.iter().copied().find(|x| *x != f).unwrap() };
            ps.leader_at[f] = Some(g);
            (format!("leader-mismatch: follower {f} names {g}, the leader is {leader}"), vec![f, leader])
        }
        1 if rng.random_bool(0.5) => {
            // n = 2: no third party to name; a leader index that differs from the leader's only above bit 31
            let g = leader + (1usize << 32);
            ps.leader_at[f] = Some(g);
            (format!("leader-mismatch: follower {f} names {g}, the leader is {leader}"), vec![f, leader])
        }
        1 => {
            // n = 2: no third party to name; use a program mismatch with the other arrival order
            let other = mismatch_pair(&mut rng, &mut ps);
            ps.template_at[f] = Some(other);
            (format!("program-mismatch: follower {f} has template {other}, leader template {}", ps.template), vec![f, leader])
        }
        _ => {
            // ill-typed program at one party
            let p = rng.random_range(0..n);
            ps.template_at[p] = Some(250);
            (format!("ill-typed: party {p}"), vec![p])
        }
    };
    let leader_template = ps.template;
    let mut spec = base_spec(&mut rng, n, vec![ps], vec![1; n], true);
    spec.http = k % 4 == 3;
    // in half of the program mismatches the follower's client re-submits its schedule request, this
    // time with the leader's program: refused as a duplicate, and it must not make the pair compatible
    if what.starts_with("program-mismatch") && k % 2 == 0 {
        spec.injections.push(Injection { after_events: rng.random_range(1..6), action: Action::DupSchedule { party: f, comp: 1, template: Some(leader_template) }, burst: false, burst_before: false });
    }
    C16Case { spec, what, must_err }
}

impl Check for C16 {
    fn id(&self) -> &'static str {
        "C16"
    }
    fn level(&self) -> &'static str {
        "exploration"
    }
    fn rule(&self) -> String {
        "each evaluation is one simulated execution (n in {2,3}) in which exactly one party's policy is incompatible: a different program at one follower (another template, or a near miss: the same characters with the line break after a `//` comment moved so that the function differs, or a difference in the last characters only), a different leader named by a follower that still regards itself as a follower (another party, or an index that differs from the leader's only above bit 31), or an ill-typed program at any party; in half of the program mismatches the follower's client re-submits its schedule request with the leader's program (refused as a duplicate; it must not make the pair compatible); the explorer chooses the arrival order (validate before or after that follower's schedule) and all other RPC orders. Oracle: the schedule calls of that follower and of the leader (ill-typed: of that party) end with an error, no destination is sent a successful result, zero MPC messages are exchanged, no task panics. distinct = (mismatch kind, configuration, coordination order) hash".into()
    }
    fn assumptions(&self) -> Vec<String> {
        vec!["two self-declared leaders are out of scope (they wait for each other until the client's RPC timeout)".into(), "a compatible third party may keep waiting for a run request; that is not flagged here".into()]
    }
    fn real_components(&self) -> Vec<&'static str> {
        SRV_REAL.to_vec()
    }
    fn stub_components(&self) -> Vec<&'static str> {
        SRV_STUB.to_vec()
    }
    fn cases(&self, tier: Tier, seed: u64) -> Vec<Value> {
        let k = match tier {
            Tier::Quick => 96,
            Tier::Thorough => 6000,
        };
        (0..k).map(|k| json!({"seed": seed, "k": k})).collect()
    }
    fn run_case(&self, case: &Value, cx: &CaseCx) -> CaseOut {
        let seed = case["seed"].as_u64().unwrap();
        let k0 = case["k"].as_u64().unwrap();
        let mut out = CaseOut::default();
        for j in 0..12u64 {
            let c = c16_gen(seed, k0 * 12 + j);
            cx.begin(&serde_json::to_value(&c).unwrap());
            let run = server::run(&c.spec);
            if c.spec.http {
                out.count("runs_through_real_http_server_nodes", 1);
            }
            out.evals += 1;
            out.sim_steps += run.events;
            out.count(&format!("kind:{}", c.what.split(':').next().unwrap_or("")), 1);
            // which arrival order was taken at the mismatching follower
            let f = c.must_err[0];
            let vpos = run.decisions.iter().position(|d| d.starts_with("validate") && d.contains(&format!(">{f} ")));
            let spos = run.decisions.iter().position(|d| *d == format!("schedule p{f} c1"));
            if let (Some(a), Some(b)) = (vpos, spos) {
                out.count(if a < b { "validate_before_schedule" } else { "validate_after_schedule" }, 1);
            }
            out.distinct.push(coord_hash(&run) ^ entropy::fnv(0, c.what.as_bytes()));
            out.violations.extend(c16_oracle(&c, &run));
            if out.samples.is_empty() {
                out.samples.push(json!({"mismatch": c.what, "run": sample_of(&c.spec, &run), "schedule_results": run.calls.iter().map(|x| format!("p{} {:?}", x.party, x.ok)).collect::<Vec<_>>()}));
            }
        }
        out
    }
    fn replay(&self, spec: &Value) -> Vec<Violation> {
        match serde_json::from_value::<C16Case>(spec.clone()) {
            Ok(c) => c16_oracle(&c, &server::run(&c.spec)),
            Err(_) => vec![],
        }
    }
}

// ---------------------------------------------------------------------------------------------
// C14

pub struct C14;

#[derive(Clone, Debug, Serialize, Deserialize)]
struct C14Case {
    spec: ServerSpec,
    what: String,
    /// the stray call must be answered with an error
    must_err: bool,
}

fn c14_oracle(c: &C14Case, run: &ServerRun) -> Vec<Violation> {
    let sv = serde_json::to_value(c).unwrap();
    let mut v = vec![];
    let kind = c.what.split(':').next().unwrap_or("").to_string();
    common_oracle(&c.spec, run, &sv, &mut v, true);
    for call in run.calls.iter().filter(|x| x.what != "schedule") {
        match call.ok {
            Some(false) => {}
            Some(true) if !c.must_err => {}
            other => v.push(viol(
                "stray-command-not-rejected",
                &format!("stray-command-not-rejected:{kind}"),
                format!("{}: the stray call {} ended with {:?} (expected an error)", c.what, call.what, other),
                &sv,
            )),
        }
    }
    // the computation under way must be undisturbed
    let mut dv = vec![];
    for ps in &c.spec.policies {
        c13_oracle_comp(&c.spec, run, ps, &sv, &mut dv);
    }
    for mut x in dv {
        x.class = format!("computation-disturbed:{}", x.class);
        x.key = format!("computation-disturbed:{kind}:{}", x.key);
        x.detail = format!("{}: {}", c.what, x.detail);
        v.push(x);
    }
    for x in v.iter_mut() {
        if x.class == "stall" || x.class == "permit-leaked" || x.class == "panic" {
            x.key = format!("{}:{kind}", x.key);
            x.detail = format!("{}: {}", c.what, x.detail);
        }
    }
    v
}

/// All stray-command cases for one base run (its decision list tells where the states change).
fn c14_cases(base: &ServerSpec, base_run: &ServerRun, rng: &mut ChaCha8Rng) -> Vec<C14Case> {
    let n = base.n;
    let ps = &base.policies[0];
    let leader = ps.leader;
    let d = &base_run.decisions;
    let pos = |pred: &dyn Fn(&String) -> bool| d.iter().position(|x| pred(x));
    let total = d.len();
    let mut out = vec![];
    let mut mk = |what: String, must_err: bool, after: usize, action: Action, out: &mut Vec<C14Case>| {
        let mut s = base.clone();
        s.explicit = d.clone();
        s.injections = vec![Injection { after_events: after, action, burst: false, burst_before: false }];
        out.push(C14Case { spec: s, what, must_err });
    };
    for p in 0..n {
        let sched_at = pos(&|x| *x == format!("schedule p{p} c1")).unwrap_or(0);
        // duplicate schedule at every later point while the machine exists
        let stop_at = base_run.machines_stopped.iter().find(|m| m.0 == p && m.1 == 1).map(|m| m.2 as usize).unwrap_or(total + 1);
        for k in (sched_at + 1)..stop_at.min(total + 1) {
            mk(format!("duplicate-schedule: party {p} ({}) after event {k}", if p == leader { "leader" } else { "follower" }), true, k, Action::DupSchedule { party: p, comp: 1, template: None }, &mut out);
        }
        // MPC message naming an unknown sender / arriving before scheduling, at every point
        for k in 0..=total {
            let from = [n, n + 1, usize::MAX, p][rng.random_range(0..4)];
            let before_sched = k <= sched_at;
            mk(
                format!("stray-msg: to party {p} from {from} after event {k}{}", if before_sched { " (before its schedule)" } else { "" }),
                from >= n || before_sched,
                k,
                Action::StrayMsg { party: p, comp: 1, from },
                &mut out,
            );
        }
        if p != leader {
            let validated_at = pos(&|x| x.starts_with(&format!("validate {leader}>{p} "))).unwrap_or(total);
            let ready = validated_at.max(sched_at);
            // run / consts before the machine is validated
            for k in 0..=ready.min(total) {
                if k > validated_at.min(sched_at) && k > sched_at && k > validated_at {
                    continue;
                }
                mk(format!("run-before-validation: party {p} after event {k}"), true, k, Action::StrayRun { party: p, comp: 1 }, &mut out);
                mk(format!("consts-before-validation: party {p} after event {k}"), true, k, Action::StrayConsts { party: p, comp: 1, from: leader }, &mut out);
            }
            // a second validate request after the genuine one, in whatever state the follower is
            // then (still waiting for its own schedule call, validated, sending constants ...)
            if validated_at < total {
                let until = pos(&|x| x.starts_with(&format!("run {leader}>{p} "))).unwrap_or(total);
                for k in (validated_at + 1)..=until.min(total) {
                    mk(format!("repeated-validate: party {p} after event {k}"), true, k, Action::StrayValidate { party: p, comp: 1 }, &mut out);
                }
            }
            // validate in a late state (after the run request was delivered)
            if let Some(run_at) = pos(&|x| x.starts_with(&format!("run {leader}>{p} "))) {
                for k in (run_at + 1)..stop_at.min(total + 1) {
                    mk(format!("late-validate: party {p} after event {k}"), true, k, Action::StrayValidate { party: p, comp: 1 }, &mut out);
                }
            }
        }
    }
    out
}

impl Check for C14 {
    fn id(&self) -> &'static str {
        "C14"
    }
    fn level(&self) -> &'static str {
        "fault_enumeration"
    }
    fn rule(&self) -> String {
        "for each base configuration (n in {2,3}, every leader, with / without constants) the undisturbed run is recorded; then one stray command per simulated run is injected after event k, for every k at which the command is invalid for the state reached: duplicate schedule (leader and follower, every later point), run / consts before the machine is validated (every earlier point, incl. before its own schedule, where the router answers 'unknown computation'), a second validate after the genuine one (every point up to the run request, whatever state the follower is in then) and validate after the run request (every later point), MPC message from sender index n, n+1, usize::MAX or the own index at every point incl. before scheduling; and every validate / run / consts RPC of the run delivered twice (retry after a lost response); the base run's decisions are replayed around the injection. Oracle: the stray call returns an error (own-index messages after scheduling are only required not to disturb), no task panics, and the computation under way still satisfies the C13 oracle (schedules Ok, exactly one correct result per destination, machines stop, permits back). distinct = (configuration, command, injection point)".into()
    }
    fn assumptions(&self) -> Vec<String> {
        vec!["commands that are valid in the state reached (e.g. an early copy of the leader's own validate) are not 'stray' in the property's sense and are not injected".into()]
    }
    fn real_components(&self) -> Vec<&'static str> {
        SRV_REAL.to_vec()
    }
    fn stub_components(&self) -> Vec<&'static str> {
        SRV_STUB.to_vec()
    }
    fn cases(&self, tier: Tier, seed: u64) -> Vec<Value> {
        let k = match tier {
            Tier::Quick => 24,
            Tier::Thorough => 480,
        };
        let mut v = vec![];
        for k in 0..k {
            for sh in 0..8 {
                v.push(json!({"seed": seed, "k": k, "shard": sh}));
            }
        }
        v
    }
    fn run_case(&self, case: &Value, cx: &CaseCx) -> CaseOut {
        let seed = case["seed"].as_u64().unwrap();
        let k = case["k"].as_u64().unwrap();
        let shard = case["shard"].as_u64().unwrap();
        let mut out = CaseOut::default();
        let mut rng = entropy::rng(seed, 0xc14, k);
        let n = if k % 3 == 2 { 3 } else { 2 };
        let mut ps = gen_policy(&mut rng, n, 1, &[0, 1, 2, 3]);
        ps.leader = (k as usize) % n;
        ps.dest = vec![true; n];
        // MPC messages explored individually in a third of the configurations (injection "during MPC")
        let mut base = base_spec(&mut rng, n, vec![ps], vec![1; n], k % 3 != 1);
        base.http = k % 4 == 2;
        let base_run = server::run(&base);
        let bv = c13_oracle(&base, &base_run);
        if !bv.is_empty() {
            out.violations.push(viol("harness-error", "c14-base", format!("undisturbed run violates C13: {}", bv[0].detail), &serde_json::to_value(&base).unwrap()));
            return out;
        }
        // retried RPCs: every validate / run / consts call of the base run delivered twice (the caller
        // sees the first answer); the second copy is invalid for the state then reached
        let mut all_cases = c14_cases(&base, &base_run, &mut rng);
        {
            let mut seen = std::collections::BTreeSet::new();
            for d in &base_run.decisions {
                let parts: Vec<&str> = d.split(' ').collect();
                if parts.len() >= 4 && ["validate", "run", "consts"].contains(&parts[0]) && seen.insert(d.clone()) {
                    let (from, to) = parts[1].split_once('>').map(|(a, b)| (a.parse::<usize>().unwrap_or(0), b.parse::<usize>().unwrap_or(0))).unwrap_or((0, 0));
                    let mut sp = base.clone();
                    sp.explicit = base_run.decisions.clone();
                    sp.faults.push(RpcFault { kind: parts[0].to_string(), from, to, comp: 1, nth: 0, verdict: Verdict::Duplicate });
                    all_cases.push(C14Case { spec: sp, what: format!("duplicated-rpc: {} {}>{} delivered twice", parts[0], from, to), must_err: false });
                }
            }
        }
        for (i, c) in all_cases.into_iter().enumerate() {
            if i as u64 % 8 != shard {
                continue;
            }
            // with individually explored messages the number of points is large: sample
            if !base.auto_msgs && i % 5 != 0 {
                continue;
            }
            cx.begin(&serde_json::to_value(&c).unwrap());
            let run = server::run(&c.spec);
            if c.spec.http {
                out.count("runs_through_real_http_server_nodes", 1);
            }
            out.evals += 1;
            out.sim_steps += run.events;
            for (f, x) in &run.fired {
                out.count(&format!("fired:{f}"), *x);
            }
            out.count(&format!("kind:{}", c.what.split(':').next().unwrap_or("")), 1);
            out.distinct.push(entropy::fnv(0, c.what.as_bytes()) ^ base.seed);
            out.violations.extend(c14_oracle(&c, &run));
            if out.samples.is_empty() && i % 17 == 0 {
                out.samples.push(json!({"stray": c.what, "stray_result": run.calls.iter().filter(|x| x.what != "schedule").map(|x| format!("{} {:?} {}", x.what, x.ok, x.detail.chars().take(80).collect::<String>())).collect::<Vec<_>>(), "run": sample_of(&c.spec, &run)}));
            }
        }
        out
    }
    fn replay(&self, spec: &Value) -> Vec<Violation> {
        match serde_json::from_value::<C14Case>(spec.clone()) {
            Ok(c) => c14_oracle(&c, &server::run(&c.spec)),
            Err(_) => vec![],
        }
    }
}

// ---------------------------------------------------------------------------------------------
// C15

pub struct C15;

fn c15_oracle(spec: &ServerSpec, run: &ServerRun) -> Vec<Violation> {
    let sv = serde_json::to_value(spec).unwrap();
    let mut v = vec![];
    let mut tmp = vec![];
    common_oracle(spec, run, &sv, &mut tmp, false);
    v.extend(tmp.into_iter().filter(|x| x.class == "panic" || x.class == "event-limit"));
    for call in run.calls.iter().filter(|c| c.what == "cancel") {
        let (p, comp) = (call.party, call.comp);
        let ps = spec.policies.iter().find(|x| x.comp == comp).unwrap();
        let state_hint = run.decisions.get(..call.issued_seq as usize).map(|d| d.iter().rev().find(|x| !x.starts_with("msg") && !x.starts_with("inject")).cloned().unwrap_or_default()).unwrap_or_default();
        let ctx = format!("cancel at party {p} issued after event {} ('{}')", call.issued_seq, state_hint);
        match call.ok {
            None => {
                // cancel never returned
                if call.detail != "unknown computation" {
                    v.push(viol("cancel-never-returned", "cancel-never-returned", format!("{ctx}: the cancel call did not return by the end of the run"), &sv));
                }
                continue;
            }
            Some(false) => continue,
            Some(true) => {}
        }
        let done = call.done_seq.unwrap_or(u64::MAX);
        // the machine has stopped
        if !run.machines_stopped.iter().any(|m| m.0 == p && m.1 == comp) {
            v.push(viol("machine-alive-after-cancel", "machine-alive-after-cancel", format!("{ctx}: cancel returned Ok but the state machine of party {p} never stopped"), &sv));
        }
        let outs: Vec<_> = run.outputs.iter().filter(|o| o.party == p && o.comp == comp).collect();
        if ps.dest[p] {
            // exactly one notification, unless the machine had not even been given a policy yet
            let scheduled_before = run.calls.iter().any(|c| c.what == "schedule" && c.party == p && c.comp == comp && c.issued_seq < call.issued_seq);
            // (http mode: cancel is the node's graceful shutdown, which swallows the result of the
            // individual cancel calls - 'no notification' cannot be told from 'cancel answered with an
            // error because the machine had ended on its own', so only 'more than one' is judged)
            if outs.len() > 1 || (scheduled_before && outs.is_empty() && !spec.http) {
                v.push(viol(
                    "cancel-notification-count",
                    &format!("cancel-notification-count:{}", outs.len()),
                    format!("{ctx}: cancel returned Ok; the destination of party {p} was sent {} notifications {:?}", outs.len(), outs.iter().map(|o| (&o.result, o.seq)).collect::<Vec<_>>()),
                    &sv,
                ));
            }
            let want = server::expected(ps.template, &ps.inputs, ps.const_k).map(lit);
            let rpc_err_ok = |r: &Result<String, String>| !spec.faults.is_empty() && matches!(r, Err(e) if e == "RequestRunError" || e == "SendConstsError" || e.starts_with("MpcError"));
            if let Some(o) = outs.iter().find(|o| o.result != Err("Cancelled".to_string()) && !rpc_err_ok(&o.result) && (want.is_none() || o.result.clone().ok() != want)) {
                v.push(viol(
                    "cancel-notification-wrong-kind",
                    "cancel-notification-wrong-kind",
                    format!("{ctx}: cancel returned Ok; the destination of party {p} was sent {:?}, which is neither 'cancelled' nor the real result {:?}", o.result, want),
                    &sv,
                ));
            }
            let done_ord = call.done_ord.unwrap_or(u64::MAX);
            if let Some(o) = outs.iter().find(|o| o.seq > done || o.ord > done_ord) {
                v.push(viol(
                    "output-after-cancel-returned",
                    "output-after-cancel-returned",
                    format!("{ctx}: cancel returned Ok at event {done}, but {:?} was sent to the destination at event {}", o.result, o.seq),
                    &sv,
                ));
            }
        } else if !outs.is_empty() {
            v.push(viol("output-without-destination", "output-without-destination", format!("{ctx}: {} outputs", outs.len()), &sv));
        }
        // the leader's permit is available again
        if run.permits[p] != spec.concurrency[p] {
            v.push(viol(
                "permit-not-returned-after-cancel",
                "permit-not-returned-after-cancel",
                format!("{ctx}: {} of {} permits available at the end", run.permits[p], spec.concurrency[p]),
                &sv,
            ));
        }
    }
    v
}

impl Check for C15 {
    fn id(&self) -> &'static str {
        "C15"
    }
    fn level(&self) -> &'static str {
        "fault_enumeration"
    }
    fn rule(&self) -> String {
        "for each base configuration (n in {2,3}, every leader, with / without constants and destinations) the undisturbed run is recorded; then cancel() is invoked on party p after the k-th event, for every k of the run (all states Init .. Executing, including 'cancel queued behind the internal run command' reached by cancelling while the compile job is parked, and, with individually explored MPC messages, every point of the MPC phase) and every p, replaying the base decisions around it; every point once after the system quiesced and once in the same step as the preceding event (burst: both commands queued back to back, which is the only way to meet state Running); a third of the runs additionally fail one run / consts RPC so that cancel has to stay synchronised with tasks that can still notify the destination, another third deliver one run request twice (a retrying client; the copy is refused) before the cancel, a sixth fail a validate request of the leader (its schedule handler then ends the machine without a notification; a cancel queued behind it must not report success). In HTTP mode also a shutdown under lock contention (a parked message handler holds the computation table's read lock, a schedule request for a second computation waits for the write lock, then the node is shut down). Oracle at the cancel-return event and at final quiescence: if cancel returned Ok the party's machine has stopped, a party with a destination was sent exactly one notification (Cancelled, or the real result if already sent) and none after the cancel returned, and its permits are all available; no task panics; a cancel call that never returns is a violation. distinct = (configuration, party, k)".into()
    }
    fn assumptions(&self) -> Vec<String> {
        vec!["single-threaded runtime only (DESIGN.md section 3); output deliveries are atomic".into(), "what the other parties do after a peer cancelled is not judged".into()]
    }
    fn real_components(&self) -> Vec<&'static str> {
        SRV_REAL.to_vec()
    }
    fn stub_components(&self) -> Vec<&'static str> {
        SRV_STUB.to_vec()
    }
    fn cases(&self, tier: Tier, seed: u64) -> Vec<Value> {
        let k = match tier {
            Tier::Quick => 32,
            Tier::Thorough => 800,
        };
        let mut v = vec![];
        for k in 0..k {
            for sh in 0..4 {
                v.push(json!({"seed": seed, "k": k, "shard": sh}));
            }
        }
        v
    }
    fn run_case(&self, case: &Value, cx: &CaseCx) -> CaseOut {
        let seed = case["seed"].as_u64().unwrap();
        let k = case["k"].as_u64().unwrap();
        let shard = case["shard"].as_u64().unwrap();
        let mut out = CaseOut::default();
        let mut rng = entropy::rng(seed, 0xc15, k);
        let n = if k % 4 == 3 { 3 } else { 2 };
        let mut ps = gen_policy(&mut rng, n, 1, &[0, 1, 2, 3]);
        ps.leader = (k as usize / 2) % n;
        if k % 2 == 0 {
            ps.dest = vec![true; n];
        }
        let mut base = base_spec(&mut rng, n, vec![ps], vec![1; n], k % 4 != 1);
        // a quarter of the configurations: real HTTP server nodes, cancel = graceful shutdown of that node
        base.http = k % 8 == 6;
        // slow destination: output deliveries are explorer events in half of the configurations
        base.gate_outputs = k % 2 == 1;
        let base_run = server::run(&base);
        let bv = c13_oracle(&base, &base_run);
        if !bv.is_empty() {
            out.violations.push(viol("harness-error", "c15-base", format!("undisturbed run violates C13: {}", bv[0].detail), &serde_json::to_value(&base).unwrap()));
            return out;
        }
        let total = base_run.decisions.len();
        let mut i = 0u64;
        // a destination that reacts to its first notification by cancelling (Cancel enqueued while the
        // delivering task is still running)
        for p in 0..n {
            if !base.policies[0].dest[p] || shard != (p as u64) % 4 || base.http {
                continue;
            }
            let mut s = base.clone();
            s.explicit = base_run.decisions.clone();
            s.injections = vec![Injection { after_events: 0, action: Action::CancelFromOutput { party: p, comp: 1 }, burst: false, burst_before: false }];
            cx.begin(&serde_json::to_value(&s).unwrap());
            let run = server::run(&s);
            if s.http {
                out.count("runs_through_real_http_server_nodes", 1);
            }
            out.evals += 1;
            out.sim_steps += run.events;
            out.count("cancel_from_inside_the_output_delivery", 1);
            out.distinct.push(entropy::mix(base.seed, p as u64, 0xffff));
            out.violations.extend(c15_oracle(&s, &run));
        }
        // HTTP mode: graceful shutdown under lock contention. While the leader's machine is busy in
        // its validate round, a message for it parks in the handler (which holds the table's read
        // lock), then a schedule request for a second computation waits for the write lock, then the
        // node is shut down: the shutdown has to wait its turn and then cancel both computations.
        // (One entry in the table at that moment, so the iteration order of the table does not matter.)
        if base.http && shard == 0 {
            let leader = base.policies[0].leader;
            let mut s = base.clone();
            let mut second = s.policies[0].clone();
            second.comp = 2;
            s.policies.push(second);
            s.no_schedule = vec![(leader, 2)];
            s.concurrency = vec![2; n];
            s.explicit = vec![format!("schedule p{leader} c1")];
            s.injections = vec![
                // (a sender index out of range: the machine will refuse the message, nothing reaches the engine)
                Injection { after_events: 1, action: Action::StrayMsg { party: leader, comp: 1, from: n }, burst: false, burst_before: false },
                Injection { after_events: 1, action: Action::DupSchedule { party: leader, comp: 2, template: None }, burst: false, burst_before: false },
                Injection { after_events: 1, action: Action::Cancel { party: leader, comp: 1 }, burst: false, burst_before: false },
            ];
            cx.begin(&serde_json::to_value(&s).unwrap());
            let run = server::run(&s);
            out.evals += 1;
            out.sim_steps += run.events;
            out.count("runs_through_real_http_server_nodes", 1);
            out.count("shutdown_while_a_table_writer_waits", 1);
            out.distinct.push(entropy::mix(base.seed, leader as u64, 0xc0de));
            out.violations.extend(c15_oracle(&s, &run));
        }
        for p in 0..n {
            for kk2 in 0..(3 * (total + 1)) {
                // every point once quiesced, once in the same step right after the preceding event
                // (burst), once in the same step right before the following event (burst-before)
                let (kk, mode) = (kk2 / 3, kk2 % 3);
                if (mode == 1 && kk == 0) || (mode == 2 && kk >= total) {
                    continue;
                }
                i += 1;
                if i % 4 != shard {
                    continue;
                }
                if !base.auto_msgs && kk % 4 != 0 && base_run.decisions.get(kk.saturating_sub(1)).is_some_and(|d| d.starts_with("msg")) {
                    continue;
                }
                let mut s = base.clone();
                s.explicit = base_run.decisions.clone();
                s.injections = vec![Injection { after_events: kk, action: Action::Cancel { party: p, comp: 1 }, burst: mode == 1, burst_before: mode == 2 }];
                // in a share of the runs a constants (or run) RPC of this computation additionally fails:
                // cancel must stay synchronised with tasks that can still notify the destination
                if i % 3 == 0 {
                    let ps = &base.policies[0];
                    let (kind, from) = if ps.template >= 2 && i % 2 == 0 {
                        ("consts", if ps.template == 3 && i % 4 == 0 { 1 } else { 0 })
                    } else {
                        ("run", ps.leader)
                    };
                    let tos: Vec<usize> = (0..n).filter(|q| *q != from).collect();
                    s.faults.push(RpcFault {
                        kind: kind.into(),
                        from,
                        to: tos[(i as usize / 3) % tos.len()],
                        comp: 1,
                        nth: 0,
                        verdict: if i % 5 < 3 { Verdict::FailBefore } else { Verdict::FailAfter },
                    });
                }
                // in another share a run request of this computation is delivered twice (a retrying
                // client): the second copy is refused, and cancel must still find the party's real state
                if i % 3 == 1 {
                    let leader = base.policies[0].leader;
                    let tos: Vec<usize> = (0..n).filter(|q| *q != leader).collect();
                    s.faults.push(RpcFault { kind: "run".into(), from: leader, to: tos[(i as usize / 3) % tos.len()], comp: 1, nth: 0, verdict: Verdict::Duplicate });
                    out.count("cancel_combined_with_a_duplicated_run_request", 1);
                }
                // and in the last share a validate request of the leader fails: the leader's schedule
                // handler then ends the machine without a notification, and a cancel queued behind it
                // must not report success
                if i % 3 == 2 && i % 2 == 0 {
                    let leader = base.policies[0].leader;
                    let tos: Vec<usize> = (0..n).filter(|q| *q != leader).collect();
                    s.faults.push(RpcFault { kind: "validate".into(), from: leader, to: tos[(i as usize / 6) % tos.len()], comp: 1, nth: 0, verdict: if i % 4 == 0 { Verdict::FailBefore } else { Verdict::FailAfter } });
                    out.count("cancel_combined_with_a_failing_validate_request", 1);
                }
                cx.begin(&serde_json::to_value(&s).unwrap());
                let run = server::run(&s);
                if s.http {
                    out.count("runs_through_real_http_server_nodes", 1);
                }
                out.evals += 1;
                out.sim_steps += run.events;
                let c = run.calls.iter().find(|c| c.what == "cancel");
                out.count(&format!("cancel_result:{:?}", c.and_then(|c| c.ok)), 1);
                let prev = base_run.decisions.get(kk.wrapping_sub(1)).map(|d| d.split(' ').next().unwrap_or("").to_string()).unwrap_or_else(|| "start".into());
                out.count(&format!("cancel_after:{prev}{}", ["", "(burst)", "(burst-before-next)"][mode]), 1);
                out.distinct.push(entropy::mix(base.seed, p as u64, kk2 as u64));
                out.violations.extend(c15_oracle(&s, &run));
                if out.samples.is_empty() && kk == total / 2 {
                    out.samples.push(json!({"cancel_party": p, "after_event": kk, "cancel_result": c.map(|c| format!("{:?} {}", c.ok, c.detail)), "run": sample_of(&s, &run)}));
                }
            }
        }
        out
    }
    fn shrink(&self, spec: &Value) -> Vec<Value> {
        shrink_server_value(spec)
    }
    fn replay(&self, spec: &Value) -> Vec<Violation> {
        match serde_json::from_value::<ServerSpec>(spec.clone()) {
            Ok(s) => c15_oracle(&s, &server::run(&s)),
            Err(_) => vec![],
        }
    }
}

// ---------------------------------------------------------------------------------------------
// C17

pub struct C17;

fn c17_oracle(spec: &ServerSpec, run: &ServerRun) -> Vec<Violation> {
    let sv = serde_json::to_value(spec).unwrap();
    let mut v = vec![];
    let mut tmp = vec![];
    common_oracle(spec, run, &sv, &mut tmp, false);
    v.extend(tmp.into_iter().filter(|x| x.class == "panic" || x.class == "event-limit"));
    let fault = spec.faults.first();
    let fkey = fault.map(|f| format!("{}:{:?}", f.kind, f.verdict)).unwrap_or_else(|| "none".into());
    // the concurrency bound
    for p in 0..spec.n {
        if run.max_overlap[p] > spec.concurrency[p] {
            v.push(viol("concurrency-limit-exceeded", "concurrency-limit-exceeded", format!("party {p} held {} permits at once, limit {}", run.max_overlap[p], spec.concurrency[p]), &sv));
        }
    }
    for p in 0..spec.n {
        if run.max_led_active[p] > spec.concurrency[p] {
            v.push(viol(
                "concurrency-limit-exceeded",
                "concurrency-limit-exceeded",
                format!("party {p} had {} led computations between 'run requested' and 'state machine stopped' at the same time, limit {}", run.max_led_active[p], spec.concurrency[p]),
                &sv,
            ));
        }
    }
    // permits at quiescence
    for p in 0..spec.n {
        let led: Vec<u64> = spec.policies.iter().filter(|ps| ps.leader == p).map(|ps| ps.comp).collect();
        let alive: Vec<&(usize, u64)> = run.stalled_machines.iter().filter(|m| m.0 == p).collect();
        // a policy that is still waiting for a peer (which failed or was cancelled) legitimately holds
        // its permit; a permit held although no led policy of this party is alive has leaked
        // ... unless the leader itself was told to cancel it (accepted, or the cancel call never
        // returned): cancellation ends the policy at the party that was asked, whatever its peers do
        let cancelled: Vec<u64> = run.calls.iter().filter(|c| c.what == "cancel" && c.party == p && c.ok != Some(false)).map(|c| c.comp).collect();
        for m in alive.iter().filter(|m| led.contains(&m.1) && cancelled.contains(&m.1)) {
            v.push(viol(
                "policy-lingers-after-cancel",
                "policy-lingers-after-cancel",
                format!("party {p} leads computation {} and was asked to cancel it ({:?}), but its state machine is still alive at the end of the run and holds {} of {} permits", m.1, run.calls.iter().find(|c| c.what == "cancel" && c.party == p && c.comp == m.1).map(|c| c.ok), spec.concurrency[p].saturating_sub(run.permits[p]), spec.concurrency[p]),
                &sv,
            ));
        }
        let alive_led = alive.iter().filter(|m| led.contains(&m.1) && !cancelled.contains(&m.1)).count();
        let held = spec.concurrency[p].saturating_sub(run.permits[p]);
        if held > alive_led {
            v.push(viol(
                "permit-leaked",
                &format!("permit-leaked:{fkey}"),
                format!(
                    "party {p}: {} of {} permits available after all policies ended (it led computations {:?}; its machines still alive: {:?}; injected RPC fault: {:?})",
                    run.permits[p], spec.concurrency[p], led, alive, fault
                ),
                &sv,
            ));
        }
    }
    // a failed validate / run / consts ends the policy at the caller
    if let Some(f) = fault {
        let ps = spec.policies.iter().find(|x| x.comp == f.comp).unwrap();
        let caller = f.from;
        let fired = run.fired.keys().any(|k| k.starts_with("rpc_"));
        if fired {
            if !run.machines_stopped.iter().any(|m| m.0 == caller && m.1 == f.comp) {
                v.push(viol(
                    "policy-lingers-after-failed-rpc",
                    &format!("policy-lingers-after-failed-rpc:{fkey}"),
                    format!("the {} call {}->{} of computation {} failed ({:?}) but the caller's state machine never stopped", f.kind, f.from, f.to, f.comp, f.verdict),
                    &sv,
                ));
            }
            if ps.dest[caller] && f.kind != "validate" {
                let outs: Vec<_> = run.outputs.iter().filter(|o| o.party == caller && o.comp == f.comp).collect();
                if !outs.iter().any(|o| o.result.is_err()) && !outs.iter().any(|o| o.result.is_ok()) {
                    v.push(viol(
                        "no-error-notification-after-failed-rpc",
                        &format!("no-error-notification-after-failed-rpc:{fkey}"),
                        format!("the {} call {}->{} failed ({:?}); the caller has a destination but it was sent nothing", f.kind, f.from, f.to, f.verdict),
                        &sv,
                    ));
                }
            }
        }
    } else if spec.injections.iter().all(|i| matches!(i.action, Action::DupSchedule { .. })) {
        // no faults at all (a duplicate schedule is refused and changes nothing): everything must
        // complete correctly
        let mut tmp = vec![];
        common_oracle(spec, run, &sv, &mut tmp, true);
        v.extend(tmp.into_iter().filter(|x| x.class == "stall"));
        // judged only when the injected request really was the second one of that party (if it comes
        // first it *is* the schedule call, and the later one may even start the computation anew)
        for ps in &spec.policies {
            let dup_first = run.calls.iter().any(|d| {
                d.what == "dup-schedule" && d.comp == ps.comp && run.calls.iter().any(|c| c.what == "schedule" && c.party == d.party && c.comp == d.comp && c.issued_seq >= d.issued_seq)
            });
            if !dup_first {
                c13_oracle_comp(spec, run, ps, &sv, &mut v);
            }
        }
    }
    v
}

fn c17_gen(seed: u64, k: u64) -> ServerSpec {
    let mut rng = entropy::rng(seed, 0xc17, k);
    let n = if k % 4 == 3 { 3 } else { 2 };
    let np = rng.random_range(1..=if k % 5 == 0 { 8 } else { 4 });
    let policies: Vec<PolicySpec> = (0..np).map(|c| gen_policy(&mut rng, n, c as u64 + 1, &[0, 0, 2, 3])).collect();
    let concurrency: Vec<usize> = (0..n).map(|_| rng.random_range(1..=3)).collect();
    let mut spec = base_spec(&mut rng, n, policies, concurrency, true);
    // (not together with a cancel: the shutdown of a node cancels its computations in the iteration
    // order of a std HashMap, which this simulator does not seed)
    spec.http = (k % 4 == 1 || k % 12 == 6) && k % 3 != 2;
    match k % 3 {
        1 => {
            // one failing RPC
            let ps = &spec.policies[rng.random_range(0..spec.policies.len())];
            let kinds: Vec<&str> = if ps.template >= 2 { vec!["validate", "run", "consts"] } else { vec!["validate", "run"] };
            let kind = kinds[rng.random_range(0..kinds.len())];
            let from = if kind == "consts" { if ps.template == 3 && rng.random() { 1 } else { 0 } } else { ps.leader };
            let tos: Vec<usize> = (0..n).filter(|p| *p != from).collect();
            let to = tos[rng.random_range(0..tos.len())];
            spec.faults.push(RpcFault {
                kind: kind.into(),
                from,
                to,
                comp: ps.comp,
                nth: 0,
                verdict: if rng.random() { Verdict::FailBefore } else { Verdict::FailAfter },
            });
        }
        0 if k % 2 == 0 => {
            // a client that sends its schedule request twice (refused; must not cost anybody a permit)
            let ps = &spec.policies[rng.random_range(0..spec.policies.len())];
            spec.injections.push(Injection {
                after_events: rng.random_range(1..30),
                action: Action::DupSchedule { party: if rng.random_bool(0.7) { ps.leader } else { rng.random_range(0..n) }, comp: ps.comp, template: None },
                burst: false,
                burst_before: false,
            });
        }
        2 => {
            // cancels
            let ps = &spec.policies[rng.random_range(0..spec.policies.len())];
            spec.injections.push(Injection {
                after_events: rng.random_range(0..30),
                action: Action::Cancel { party: rng.random_range(0..n), comp: ps.comp },
                burst: rng.random_bool(0.3),
                burst_before: false,
            });
        }
        _ => {}
    }
    let mut order: Vec<usize> = (0..spec.policies.len()).collect();
    order.shuffle(&mut rng);
    spec
}

impl Check for C17 {
    fn id(&self) -> &'static str {
        "C17"
    }
    fn level(&self) -> &'static str {
        "exploration"
    }
    fn rule(&self) -> String {
        "each evaluation is one simulated execution of a batch of 1..8 policies (n in {2,3}, mixed leaders, concurrency 1..3 per party, destinations present or absent, programs with and without constants) over one shared semaphore per party; a third of the runs inject one failing RPC (FailBefore = request lost, FailAfter = response lost) into a validate / run / consts call, a third inject a cancel at a random point, a sixth send one schedule request twice (refused; the batch must still complete correctly). Monitor at every quiescence: permits held per party, and led computations between 'first run request sent' and 'state machine stopped', never exceed its concurrency; at the end every party has all permits back (a led policy may keep its permit only while it legitimately waits for a failed peer, never after the leader itself was asked to cancel it); for a failed RPC the affected policy ends at the caller (its machine stops; run / consts: an error notification if it has a destination); fault-free batches must satisfy the C13 oracle for every policy. distinct = (batch, fault, coordination order) hash".into()
    }
    fn assumptions(&self) -> Vec<String> {
        vec!["followers of a policy whose leader failed may keep waiting (no RPC timeouts in the core); only the caller side is judged".into()]
    }
    fn real_components(&self) -> Vec<&'static str> {
        SRV_REAL.to_vec()
    }
    fn stub_components(&self) -> Vec<&'static str> {
        SRV_STUB.to_vec()
    }
    fn cases(&self, tier: Tier, seed: u64) -> Vec<Value> {
        let k = match tier {
            Tier::Quick => 128,
            Tier::Thorough => 6000,
        };
        (0..k).map(|k| json!({"seed": seed, "k": k})).collect()
    }
    fn run_case(&self, case: &Value, cx: &CaseCx) -> CaseOut {
        let seed = case["seed"].as_u64().unwrap();
        let k0 = case["k"].as_u64().unwrap();
        let mut out = CaseOut::default();
        for j in 0..6u64 {
            let spec = c17_gen(seed, k0 * 6 + j);
            cx.begin(&serde_json::to_value(&spec).unwrap());
            let run = server::run(&spec);
            if spec.http {
                out.count("runs_through_real_http_server_nodes", 1);
            }
            out.evals += 1;
            out.sim_steps += run.events;
            for (f, x) in &run.fired {
                out.count(&format!("fired:{f}"), *x);
            }
            out.count(&format!("policies={}", spec.policies.len()), 1);
            out.count("max_overlap_sum", run.max_overlap.iter().sum::<usize>() as u64);
            if run.max_led_active.iter().zip(&spec.concurrency).any(|(a, b)| a == b) {
                out.count("runs_reaching_the_limit", 1);
            }
            out.distinct.push(coord_hash(&run) ^ spec.seed);
            out.violations.extend(c17_oracle(&spec, &run));
            if out.samples.is_empty() {
                out.samples.push(json!({"run": sample_of(&spec, &run), "max_overlap": run.max_overlap, "permits_at_end": run.permits}));
            }
        }
        out
    }
    fn shrink(&self, spec: &Value) -> Vec<Value> {
        shrink_server_value(spec)
    }
    fn replay(&self, spec: &Value) -> Vec<Violation> {
        match serde_json::from_value::<ServerSpec>(spec.clone()) {
            Ok(s) => c17_oracle(&s, &server::run(&s)),
            Err(_) => vec![],
        }
    }
}
