//! C04: preprocessing - cheating detected (A), commit-before-reveal (B), challenge-after-data (C).
use crate::checks::adversarial::*;
use crate::entropy;
use crate::framework::{CaseCx, CaseOut, Check, Tier, Violation};
use crate::mpcrun::{AdvMode, MpcRun, MpcSpec};
use crate::mutate::{LeafOp, MutSpec};
use crate::schema::{self, V};
use crate::sim::{End, Fault, FaultKind, RecvRec, Sel, TapSpec, TrMsg};
use rand::seq::SliceRandom;
use rand::{Rng, RngCore, SeedableRng};
use rand_chacha::ChaCha20Rng;
use serde::{Deserialize, Serialize};
use serde_json::{Value, json};
use std::collections::BTreeMap;

pub struct C04;

#[derive(Clone, Debug, Serialize, Deserialize)]
pub struct Dev {
    pub spec: MpcSpec,
    pub kind: String,
    pub victims: Vec<usize>,
}

fn idxs(len: usize, rng: &mut rand_chacha::ChaCha8Rng) -> Vec<usize> {
    let mut v = vec![];
    if len == 0 {
        return v;
    }
    v.push(0);
    if len > 1 {
        v.push(len - 1);
    }
    if len > 2 {
        v.push(rng.random_range(1..len - 1));
    }
    v
}

fn top_len(m: &TrMsg) -> usize {
    if m.data.len() >= 8 { u64::from_le_bytes(m.data[..8].try_into().unwrap()) as usize } else { 0 }
}

/// Deviations for which the protocol promises detection (except with probability <= 2^-40).
pub fn deviations(cfg: &AttackCfg, r: &RefRun, seed: u64) -> Vec<Dev> {
    deviations_ex(cfg, r, seed, false)
}

/// `also_live`: every message deviation additionally with the live (adaptive, self-aborting) adversary.
pub fn deviations_ex(cfg: &AttackCfg, r: &RefRun, seed: u64, also_live: bool) -> Vec<Dev> {
    let mut rng = entropy::rng(seed, 0xc04, cfg.base.seed);
    let c = cfg.c;
    let n = cfg.base.n();
    let ss = sites(&r.run, c);
    // occurrence of (to, phase)
    let mut occ: BTreeMap<(usize, String), usize> = BTreeMap::new();
    let mut site_occ = vec![];
    for s in &ss {
        let e = occ.entry((s.to, s.phase.clone())).or_insert(0);
        site_occ.push(*e);
        *e += 1;
    }
    let mut out: Vec<Dev> = vec![];
    let mut push = |kind: String, muts: Vec<(usize, MutSpec)>, victims: Vec<usize>, out: &mut Vec<Dev>| {
        let faults: Vec<Fault> = muts.into_iter().map(|(si, m)| fault_at(c, &ss[si], FaultKind::Mutate(m))).collect();
        if also_live {
            out.push(Dev {
                spec: attacked_spec(cfg, AdvMode::Live, faults.clone(), vec![], None, &r.decisions),
                kind: format!("{kind}:live"),
                victims: victims.clone(),
            });
        }
        out.push(Dev {
            spec: attacked_spec(cfg, AdvMode::Scripted, faults, vec![], None, &r.decisions),
            kind,
            victims,
        });
    };
    for (si, s) in ss.iter().enumerate() {
        let m = &r.run.transcript[s.tr];
        let len = top_len(m);
        let o = site_occ[si];
        let tag = |what: &str| format!("{}#{}:{}", s.phase, o.min(1), what);
        let mut edits: Vec<(String, MutSpec)> = vec![];
        match s.phase.as_str() {
            "RNG comm" => edits.push((tag("commitment"), MutSpec::At { path: vec![0], op: LeafOp::XorBytes(vec![1 << rng.random_range(0..8)]) })),
            "RNG ver" => edits.push((tag("opening"), MutSpec::At { path: vec![rng.random_range(0..32)], op: LeafOp::XorU8(1 << rng.random_range(0..8)) })),
            "KOS_OT_toss_comm" => edits.push((tag("commitment"), MutSpec::At { path: vec![rng.random_range(0..32)], op: LeafOp::XorU8(1 << rng.random_range(0..8)) })),
            "KOS_OT_toss_open" => edits.push((tag("opening"), MutSpec::At { path: vec![rng.random_range(0..32)], op: LeafOp::XorU8(1 << rng.random_range(0..8)) })),
            "CO_OT_s" => edits.push((tag("point"), MutSpec::At { path: vec![rng.random_range(0..32)], op: LeafOp::XorU8(1 << rng.random_range(0..8)) })),
            "CO_OT_c0c1" => {
                for j in idxs(len, &mut rng).into_iter().take(2) {
                    edits.push((tag("both-ciphertexts"), MutSpec::Multi(vec![(vec![j, 0], LeafOp::XorBytes(vec![1])), (vec![j, 1], LeafOp::XorBytes(vec![2]))])));
                }
            }
            "ALSZ_OT_setup" => {
                // one column flipped in 64 of the 128 rows
                let col_byte = rng.random_range(0..8);
                let mut mask = vec![0u8; col_byte];
                mask.push(1 << rng.random_range(0..8));
                let mut rows: Vec<usize> = (0..len).collect();
                rows.shuffle(&mut rng);
                let e: Vec<(Vec<usize>, LeafOp)> = rows.into_iter().take(64).map(|row| (vec![row], LeafOp::XorBytes(mask.clone()))).collect();
                edits.push((tag("column-in-64-rows"), MutSpec::Multi(e)));
            }
            "KOS_OT_x_t0_t1" => {
                for f in 0..3 {
                    edits.push((tag(["x", "t0", "t1"][f]), MutSpec::At { path: vec![0, f], op: LeafOp::XorBytes(vec![1 << rng.random_range(0..8)]) }));
                }
            }
            "fabitn" => {
                for j in idxs(len, &mut rng) {
                    edits.push((tag("check-bit"), MutSpec::At { path: vec![j, 0], op: LeafOp::FlipBool }));
                    edits.push((tag("check-mac"), MutSpec::At { path: vec![j, 1], op: LeafOp::XorU128(vec![1 << rng.random_range(0..8)]) }));
                    edits.push((tag("check-bit+mac"), MutSpec::Multi(vec![(vec![j, 0], LeafOp::FlipBool), (vec![j, 1], LeafOp::XorU128(vec![1 << rng.random_range(0..8)]))])));
                }
            }
            "fashare comm" => {
                for j in idxs(len, &mut rng).into_iter().take(2) {
                    edits.push((tag("c0+c1"), MutSpec::Multi(vec![(vec![j, 0], LeafOp::XorBytes(vec![1])), (vec![j, 1], LeafOp::XorBytes(vec![1]))])));
                    edits.push((tag("cm"), MutSpec::At { path: vec![j, 2], op: LeafOp::XorBytes(vec![1]) }));
                }
            }
            "fashare ver" => {
                for j in idxs(len, &mut rng) {
                    edits.push((tag("claimed-bit"), MutSpec::At { path: vec![j], op: LeafOp::XorBytes(vec![1]) }));
                    let mut mask = vec![0u8; 1 + rng.random_range(0..16 * (n - 1))];
                    mask.push(1 << rng.random_range(0..8));
                    edits.push((tag("mac"), MutSpec::At { path: vec![j], op: LeafOp::XorBytes(mask) }));
                }
            }
            "fashare di_bi" => {
                for j in idxs(len, &mut rng).into_iter().take(2) {
                    edits.push((tag("opening"), MutSpec::At { path: vec![j], op: LeafOp::XorU128(vec![1 << rng.random_range(0..8)]) }));
                }
            }
            "haand" => {
                for j in idxs(len, &mut rng) {
                    edits.push((tag("h0+h1"), MutSpec::Multi(vec![(vec![j, 0], LeafOp::FlipBool), (vec![j, 1], LeafOp::FlipBool)])));
                }
            }
            "flaand" => {
                for j in idxs(len, &mut rng) {
                    edits.push((tag("e"), MutSpec::At { path: vec![j, 0], op: LeafOp::FlipBool }));
                    // 'u' is only consumed when the victim's own x bit is 1 (the designed selective
                    // failure of the *leaky* AND), so its tampering is not a must-detect deviation
                }
            }
            "flaand comm" => {
                for j in idxs(len, &mut rng).into_iter().take(2) {
                    edits.push((tag("commitment"), MutSpec::At { path: vec![j], op: LeafOp::XorBytes(vec![1]) }));
                }
            }
            "flaand hash" => {
                for j in idxs(len, &mut rng) {
                    edits.push((tag("check-value"), MutSpec::At { path: vec![j], op: LeafOp::XorU128(vec![1 << rng.random_range(0..8)]) }));
                }
            }
            "dvalue" => {
                for j in idxs(len, &mut rng) {
                    let mm = rng.random_range(0..4);
                    edits.push((tag("d-bit"), MutSpec::At { path: vec![j, 0, mm], op: LeafOp::FlipBool }));
                    edits.push((tag("d-mac"), MutSpec::At { path: vec![j, 1, mm], op: LeafOp::XorU128(vec![1 << rng.random_range(0..8)]) }));
                    edits.push((tag("d-bits-all"), MutSpec::Multi((0..4).map(|m| (vec![j, 0, m], LeafOp::FlipBool)).collect())));
                }
            }
            "faand" => {
                for j in idxs(len, &mut rng) {
                    edits.push((tag("beaver-d"), MutSpec::At { path: vec![j, 0], op: LeafOp::FlipBool }));
                    edits.push((tag("beaver-e"), MutSpec::At { path: vec![j, 1], op: LeafOp::FlipBool }));
                    edits.push((tag("beaver-d+e"), MutSpec::Multi(vec![(vec![j, 0], LeafOp::FlipBool), (vec![j, 1], LeafOp::FlipBool)])));
                    edits.push((tag("beaver-d-mac"), MutSpec::At { path: vec![j, 2], op: LeafOp::XorU128(vec![1 << rng.random_range(0..8)]) }));
                    edits.push((tag("beaver-e-mac"), MutSpec::At { path: vec![j, 3], op: LeafOp::XorU128(vec![1 << rng.random_range(0..8)]) }));
                }
            }
            p if p.starts_with("broadcast ") => {
                // the echo round of the verified broadcast: a wrong hash for some third party
                if let Ok(V::Vec(elems, _)) = schema::decode_msg(&s.phase, &m.data) {
                    if let Some(j) = elems.iter().position(|e| matches!(e, V::Opt(_, Some(_)))) {
                        edits.push((format!("{}:echo-hash", "broadcast"), MutSpec::At { path: vec![j, 0], op: LeafOp::XorU128(vec![1]) }));
                    }
                }
            }
            _ => {}
        }
        // checks that aggregate over the indices of a vector must not let an even number of bad
        // entries cancel: the same single-entry edit at two (and at four) different indices
        if len >= 4 {
            let mk_at = |j: usize, field: Option<usize>, op: LeafOp| -> (Vec<usize>, LeafOp) {
                let mut p = vec![j];
                if let Some(f) = field {
                    p.push(f);
                }
                (p, op)
            };
            let mut js: Vec<usize> = (0..len).collect();
            js.shuffle(&mut rng);
            let multi: Option<(&str, Box<dyn Fn(usize) -> Vec<(Vec<usize>, LeafOp)>>)> = match s.phase.as_str() {
                "flaand" => Some(("e", Box::new(move |j| vec![mk_at(j, Some(0), LeafOp::FlipBool)]))),
                "haand" => Some(("h0+h1", Box::new(move |j| vec![mk_at(j, Some(0), LeafOp::FlipBool), mk_at(j, Some(1), LeafOp::FlipBool)]))),
                "flaand hash" => Some(("check-value", Box::new(move |j| vec![mk_at(j, None, LeafOp::XorU128(vec![1]))]))),
                "fabitn" => Some(("check-bit", Box::new(move |j| vec![mk_at(j, Some(0), LeafOp::FlipBool)]))),
                "fashare di_bi" => Some(("opening", Box::new(move |j| vec![mk_at(j, None, LeafOp::XorU128(vec![1]))]))),
                "faand" => Some(("beaver-d", Box::new(move |j| vec![mk_at(j, Some(0), LeafOp::FlipBool)]))),
                _ => None,
            };
            if let Some((what, f)) = multi {
                for count in [2usize, 4] {
                    let e: Vec<(Vec<usize>, LeafOp)> = js.iter().take(count).flat_map(|j| f(*j)).collect();
                    edits.push((tag(&format!("{what}-at-{count}-indices")), MutSpec::Multi(e)));
                }
            }
        }
        for (kind, mu) in edits {
            // single-recipient tamper
            push(format!("{kind}:one-recipient"), vec![(si, mu.clone())], vec![s.to], &mut out);
            // all-recipient consistent tamper (n >= 3): the same edit on the sibling messages
            if n >= 3 && s.to == ss.iter().filter(|x| x.phase == s.phase).map(|x| x.to).min().unwrap_or(s.to) {
                let sib: Vec<usize> = ss
                    .iter()
                    .enumerate()
                    .filter(|(sj, x)| x.phase == s.phase && site_occ[*sj] == o)
                    .map(|(sj, _)| sj)
                    .collect();
                let is_broadcast = matches!(
                    s.phase.as_str(),
                    "fashare comm" | "fashare ver" | "fashare di_bi" | "flaand comm" | "flaand hash"
                ) || (s.phase == "RNG comm" && o == 1)
                    || (s.phase == "RNG ver" && o == 1);
                if is_broadcast && sib.len() == n - 1 {
                    let victims: Vec<usize> = sib.iter().map(|sj| ss[*sj].to).collect();
                    push(format!("{kind}:all-recipients"), sib.iter().map(|sj| (*sj, mu.clone())).collect(), victims, &mut out);
                }
            }
        }
    }
    // an OT-extension receiver that sends an empty matrix (or one row short) and answers the KOS
    // check with zeros: with Q = 0 the check equation holds for any coefficients, so only the row
    // count of the matrix can catch it
    {
        let setups: Vec<usize> = (0..ss.len()).filter(|i| ss[*i].phase == "ALSZ_OT_setup").collect();
        for &mi in &setups {
            let to = ss[mi].to;
            let o = site_occ[mi];
            let Some(ci) = (0..ss.len()).find(|i| ss[*i].phase == "KOS_OT_x_t0_t1" && ss[*i].to == to && site_occ[*i] == o) else { continue };
            if o > 1 {
                continue;
            }
            let zero_answer = schema::encode_msg(&V::Vec(vec![V::Tup(vec![V::Arr(vec![V::U8(0); 16]), V::Arr(vec![V::U8(0); 16]), V::Arr(vec![V::U8(0); 16])])], 1));
            push(
                format!("ALSZ_OT_setup#{}:empty-matrix+zero-check-answer:one-recipient", o.min(1)),
                vec![(mi, MutSpec::At { path: vec![], op: LeafOp::VecClear }), (ci, MutSpec::Bytes(zero_answer.clone()))],
                vec![to],
                &mut out,
            );
            push(
                format!("ALSZ_OT_setup#{}:one-row-short+zero-check-answer:one-recipient", o.min(1)),
                vec![(mi, MutSpec::At { path: vec![], op: LeafOp::VecResize(-1) }), (ci, MutSpec::Bytes(zero_answer))],
                vec![to],
                &mut out,
            );
        }
    }
    // a liar that stays consistent with its own commitment: claimed bit (or MAC) of 'fashare ver'
    // altered together with the commitment cm of the preceding 'fashare comm'
    {
        let vers: Vec<usize> = (0..ss.len()).filter(|i| ss[*i].phase == "fashare ver").collect();
        for &vi in &vers {
            let to = ss[vi].to;
            let o = site_occ[vi];
            let Some(ci) = (0..ss.len()).find(|i| ss[*i].phase == "fashare comm" && ss[*i].to == to && site_occ[*i] == o) else { continue };
            let ver = &r.run.transcript[ss[vi].tr];
            let comm = &r.run.transcript[ss[ci].tr];
            let (Ok(V::Vec(mut vel, vl)), Ok(V::Vec(mut cel, cl))) = (schema::decode_msg("fashare ver", &ver.data), schema::decode_msg("fashare comm", &comm.data)) else { continue };
            // (label, byte to alter, xor mask, new length if the decommitment is also cut short)
            for (what, byte, mask, cut) in [
                ("claimed-bit+cm", 0usize, 1u8, None),
                ("mac+cm", 1 + rng.random_range(0..16 * (n - 1)), 1u8, None),
                ("noncanonical-bit+cm", 0usize, 2u8, None),
                ("one-byte-short+cm", 0usize, 0u8, Some(usize::MAX)),
                ("bit-only+cm", 0usize, 0u8, Some(1usize)),
                ("empty+cm", 0usize, 0u8, Some(0usize)),
            ] {
                let round = rng.random_range(0..vel.len().max(1));
                let (mut vel2, mut cel2) = (vel.clone(), cel.clone());
                let mut dm: Vec<u8> = match &vel2[round] {
                    V::Vec(bs, _) => bs.iter().map(|b| if let V::U8(x) = b { *x } else { 0 }).collect(),
                    _ => continue,
                };
                if let Some(c) = cut {
                    let keep = if c == usize::MAX { dm.len().saturating_sub(1) } else { c };
                    dm.truncate(keep);
                } else if byte >= dm.len() {
                    continue;
                } else {
                    dm[byte] ^= mask;
                }
                let _ = (byte, mask);
                let h = blake3::hash(&dm);
                vel2[round] = V::Vec(dm.iter().map(|b| V::U8(*b)).collect(), dm.len() as u64);
                if let V::Tup(fields) = &mut cel2[round] {
                    fields[2] = V::Arr(h.as_bytes().iter().map(|b| V::U8(*b)).collect());
                }
                let vbytes = schema::encode_msg(&V::Vec(vel2, vl));
                let cbytes = schema::encode_msg(&V::Vec(cel2, cl));
                push(
                    format!("fashare ver#{}:{}:one-recipient", o.min(1), what),
                    vec![(ci, MutSpec::Bytes(cbytes)), (vi, MutSpec::Bytes(vbytes))],
                    vec![to],
                    &mut out,
                );
            }
            let _ = (&mut vel, &mut cel);
        }
    }
    // a liar that opens a wrong key sum consistently with its own commitments c0 / c1: only the
    // comparison with the XOR of the MACs (AShareWrongMAC) can catch it
    {
        let delta_c = r.probes[c].iter().find(|p| p.site == "delta" && p.data.len() == 16).map(|p| u128::from_le_bytes(p.data[..16].try_into().unwrap()));
        let opens: Vec<usize> = (0..ss.len()).filter(|i| ss[*i].phase == "fashare di_bi").collect();
        for &oi in &opens {
            let Some(delta_c) = delta_c else { break };
            let to = ss[oi].to;
            let o = site_occ[oi];
            let Some(ci) = (0..ss.len()).find(|i| ss[*i].phase == "fashare comm" && ss[*i].to == to && site_occ[*i] == o) else { continue };
            let open = &r.run.transcript[ss[oi].tr];
            let comm = &r.run.transcript[ss[ci].tr];
            let (Ok(V::Vec(oel, ol)), Ok(V::Vec(cel, cl))) = (schema::decode_msg("fashare di_bi", &open.data), schema::decode_msg("fashare comm", &comm.data)) else { continue };
            let round = rng.random_range(0..oel.len().max(1));
            let V::U128(d_open) = oel[round] else { continue };
            let mask: u128 = 1 << rng.random_range(0..128);
            let (new_open, new_other) = (d_open ^ mask, d_open ^ delta_c ^ mask);
            let arr = |h: blake3::Hash| V::Arr(h.as_bytes().iter().map(|b| V::U8(*b)).collect());
            let commit_of = |x: u128| blake3::hash(&x.to_be_bytes());
            let (mut oel2, mut cel2) = (oel.clone(), cel.clone());
            oel2[round] = V::U128(new_open);
            if let V::Tup(fields) = &mut cel2[round] {
                let opened_is_c0 = fields[0] == arr(commit_of(d_open));
                let (io, ix) = if opened_is_c0 { (0, 1) } else { (1, 0) };
                fields[io] = arr(commit_of(new_open));
                fields[ix] = arr(commit_of(new_other));
            }
            push(
                format!("fashare di_bi#{}:opening+c0c1:one-recipient", o.min(1)),
                vec![(ci, MutSpec::Bytes(schema::encode_msg(&V::Vec(cel2, cl)))), (oi, MutSpec::Bytes(schema::encode_msg(&V::Vec(oel2, ol))))],
                vec![to],
                &mut out,
            );
        }
    }
    // consistent lies through taps (live cheater that stays self-consistent)
    let others: Vec<usize> = (0..n).filter(|p| *p != c).collect();
    let tap = |site: &str, idx: Option<usize>, occ: Option<usize>| TapSpec {
        party: c,
        site: site.into(),
        idx,
        occ,
        xor: vec![],
    };
    let mut tapdev = |kind: &str, t: TapSpec, out: &mut Vec<Dev>| {
        out.push(Dev {
            spec: attacked_spec(cfg, AdvMode::Live, vec![], vec![t], None, &r.decisions),
            kind: kind.into(),
            victims: others.clone(),
        });
    };
    {
        let js = idxs(cfg.base.circ.and_ops.max(1), &mut rng);
        out.extend(dvalue_omission_devs(cfg, r, &js.into_iter().take(2).collect::<Vec<_>>()));
    }
    tapdev("tap:coin-toss-opened-to-other-seed(multi)", tap("shared_rng_seed", None, None), &mut out);
    tapdev("tap:coin-toss-opened-to-other-seed(pairwise)", tap("pairwise_rng_seed", None, None), &mut out);
    if cfg.base.circ.and_ops > 0 {
        for j in idxs(cfg.base.circ.and_ops, &mut rng) {
            tapdev("tap:own-d-value", tap("dvalue_own", Some(j * 8 + rng.random_range(0..4)), None), &mut out);
            tapdev("tap:own-beaver-d", tap("beaver_d_own", Some(j), None), &mut out);
            tapdev("tap:own-beaver-e", tap("beaver_e_own", Some(j), None), &mut out);
        }
    }
    out
}

/// A cheater that leaves the last opening of bucket `j` out of its 'dvalue' message (both inner
/// vectors one entry short, towards everybody) and itself continues as if its share of that
/// opening were the other value: only the length check can catch it (no MAC is sent for it).
pub fn dvalue_omission_devs(cfg: &AttackCfg, r: &RefRun, js: &[usize]) -> Vec<Dev> {
    let c = cfg.c;
    let ss = sites(&r.run, c);
    let mut seen: BTreeMap<usize, usize> = BTreeMap::new();
    // first 'dvalue' message per recipient (one round per preprocessing batch)
    let mut firsts: Vec<usize> = vec![];
    for (i, s) in ss.iter().enumerate() {
        if s.phase == "dvalue" {
            let e = seen.entry(s.to).or_insert(0);
            if *e == 0 {
                firsts.push(i);
            }
            *e += 1;
        }
    }
    let mut out = vec![];
    let Some(&first) = firsts.first() else { return out };
    let m0 = &r.run.transcript[ss[first].tr];
    let Ok(V::Vec(elems, _)) = schema::decode_msg("dvalue", &m0.data) else { return out };
    for &j in js {
        if j >= elems.len() {
            continue;
        }
        let inner = match &elems[j] {
            V::Tup(f) => match &f[0] {
                V::Vec(b, _) => b.len(),
                _ => 0,
            },
            _ => 0,
        };
        if inner == 0 {
            continue;
        }
        let faults: Vec<Fault> = firsts
            .iter()
            .map(|si| fault_at(c, &ss[*si], FaultKind::Mutate(MutSpec::Multi(vec![(vec![j, 0], LeafOp::VecResize(-1)), (vec![j, 1], LeafOp::VecResize(-1))]))))
            .collect();
        for with_tap in [true, false] {
            let taps = if with_tap { vec![TapSpec { party: c, site: "dvalue_own".into(), idx: Some(j * 8 + inner - 1), occ: Some(0), xor: vec![] }] } else { vec![] };
            out.push(Dev {
                spec: attacked_spec(cfg, AdvMode::Live, faults.clone(), taps, None, &r.decisions),
                kind: format!("dvalue#0:last-opening-left-out{}:all-recipients", if with_tap { "+own-share-adapted" } else { "" }),
                victims: firsts.iter().map(|si| ss[*si].to).collect(),
            });
        }
    }
    out
}

pub fn oracle_a(d: &Dev, run: &MpcRun) -> (Vec<Violation>, u64) {
    let mut v = vec![];
    let mut inconclusive = 0;
    let what = describe_fault(&d.spec);
    for &h in &d.victims {
        match &run.res.ends[h] {
            End::Err(e) => {
                if e.contains("peer closed") && d.spec.adversary.as_ref().map(|a| a.1 == AdvMode::Live).unwrap_or(false) {
                    inconclusive += 1;
                }
            }
            End::Ok(_) => v.push(Violation {
                class: "cheating-not-detected".into(),
                key: format!("cheating-not-detected:{}", d.kind),
                detail: format!("deviation {}: honest party {h} received the bad value and returned {} [{what}]", d.kind, run.res.ends[h].summary()),
                spec: serde_json::to_value(d).unwrap(),
            }),
            End::Panic(m) => v.push(Violation {
                class: "panic".into(),
                key: format!("panic:{}", panic_key(m)),
                detail: format!("deviation {}: honest party {h} panicked: {m}", d.kind),
                spec: serde_json::to_value(d).unwrap(),
            }),
            _ => inconclusive += 1,
        }
    }
    (v, inconclusive)
}

// ---------------------------------------------------------------------------------------------
// B: commit-before-reveal over a recorded history

const COMMIT_REVEAL: &[(&str, &[&str])] = &[
    ("KOS_OT_toss_comm", &["KOS_OT_toss_open"]),
    ("RNG comm", &["RNG ver"]),
    ("fashare comm", &["fashare ver", "fashare di_bi"]),
    ("flaand comm", &["flaand hash"]),
];

pub fn oracle_b(n: usize, honest: &[usize], transcript: &[TrMsg], recvs: &[RecvRec], spec_json: &Value) -> (Vec<Violation>, u64) {
    let mut v = vec![];
    let mut checked = 0u64;
    for &p in honest {
        for (commit, reveals) in COMMIT_REVEAL {
            // ord of the k-th completed receive of `commit` from q at p
            let mut got: BTreeMap<(usize, usize), u64> = BTreeMap::new();
            let mut cnt: BTreeMap<usize, usize> = BTreeMap::new();
            for r in recvs.iter().filter(|r| r.party == p && transcript[r.tr].phase == *commit) {
                let k = cnt.entry(r.from).or_insert(0);
                got.insert((r.from, *k), r.ord);
                *k += 1;
            }
            for reveal in *reveals {
                let mut scnt: BTreeMap<usize, usize> = BTreeMap::new();
                for m in transcript.iter().filter(|m| m.from == p && m.phase == *reveal) {
                    let k = {
                        let e = scnt.entry(m.to).or_insert(0);
                        let k = *e;
                        *e += 1;
                        k
                    };
                    checked += 1;
                    // pairwise toss (round 0 of "RNG comm") binds only the pair; later rounds bind everybody
                    let pairwise = (*commit == "RNG comm" && k == 0) || *commit == "KOS_OT_toss_comm";
                    for q in (0..n).filter(|q| *q != p) {
                        if pairwise && q != m.to {
                            continue;
                        }
                        let ok = got.get(&(q, k)).is_some_and(|o| *o < m.ord);
                        if !ok {
                            v.push(Violation {
                                class: "reveal-before-all-commitments".into(),
                                key: format!("reveal-before-all-commitments:{commit}"),
                                detail: format!(
                                    "party {p} sent '{reveal}' (round {k}) to {} at operation {} before it had received the round-{k} '{commit}' of party {q} ({:?})",
                                    m.to,
                                    m.ord,
                                    got.get(&(q, k))
                                ),
                                spec: spec_json.clone(),
                            });
                            return (v, checked);
                        }
                    }
                }
            }
        }
    }
    (v, checked)
}

// ---------------------------------------------------------------------------------------------
// C: challenge-after-data (predictor vs. probe), over honest runs

fn payload32(m: &TrMsg) -> Option<[u8; 32]> {
    if m.data.len() == 40 { m.data[8..40].try_into().ok() } else { None }
}

pub fn oracle_c(n: usize, run: &MpcRun, spec_json: &Value) -> (Vec<Violation>, BTreeMap<String, u64>) {
    let mut v = vec![];
    let mut stats: BTreeMap<String, u64> = BTreeMap::new();
    let tr = &run.res.transcript;
    let kth = |from: usize, to: usize, phase: &str, k: usize| tr.iter().filter(|m| m.from == from && m.to == to && m.phase == phase).nth(k);
    let mk = |key: &str, detail: String| Violation {
        class: "challenge-fixed-before-data".into(),
        key: key.into(),
        detail,
        spec: spec_json.clone(),
    };
    // pairwise seeds from the openings on the wire (sent before any OT data)
    for a in 0..n {
        for b in (a + 1)..n {
            let (Some(x), Some(y)) = (kth(a, b, "RNG ver", 0).and_then(payload32), kth(b, a, "RNG ver", 0).and_then(payload32)) else { continue };
            let first_data = tr.iter().filter(|m| (m.from == a && m.to == b || m.from == b && m.to == a) && m.phase == "ALSZ_OT_setup").map(|m| m.ord).min();
            let toss_done = kth(a, b, "RNG ver", 0).map(|m| m.ord).max(kth(b, a, "RNG ver", 0).map(|m| m.ord));
            let seed: [u8; 32] = std::array::from_fn(|i| x[i] ^ y[i]);
            let mut rng = ChaCha20Rng::from_seed(seed);
            let mut first = [0u8; 16];
            rng.fill_bytes(&mut first);
            // every chi0 probe of the pair's sessions, at both parties
            for p in [a, b] {
                let chis: Vec<&Vec<u8>> = run.res.probes[p]
                    .iter()
                    .filter(|pr| pr.site == "kos_chi0_sender" || pr.site == "kos_chi0_receiver")
                    .map(|pr| &pr.data)
                    .collect();
                *stats.entry("kos_sessions_probed".into()).or_insert(0) += chis.len() as u64;
                let hits = chis.iter().filter(|c| c.as_slice() == first).count();
                if hits > 0 && toss_done < first_data {
                    v.push(mk(
                        "kos-coefficients-predicted-from-initial-toss",
                        format!(
                            "pair ({a},{b}): the first KOS check coefficient used at party {p} ({hits} session(s)) equals the first 16 keystream bytes of ChaCha20 seeded with the XOR of the two 'RNG ver' openings exchanged at operation {:?}, before the first 'ALSZ_OT_setup' matrix was sent at operation {:?}",
                            toss_done, first_data
                        ),
                    ));
                }
            }
        }
    }
    // private OT-extension randomness (base key, first seed) must not be a function of the pair's
    // public coins: neither a raw block of the pairwise generator's stream nor the first output of
    // the AES generator seeded with such a block
    for a in 0..n {
        for b in (a + 1)..n {
            let (Some(x), Some(y)) = (kth(a, b, "RNG ver", 0).and_then(payload32), kth(b, a, "RNG ver", 0).and_then(payload32)) else { continue };
            let seed: [u8; 32] = std::array::from_fn(|i| x[i] ^ y[i]);
            let mut rng = ChaCha20Rng::from_seed(seed);
            let mut derivable: std::collections::HashSet<[u8; 16]> = std::collections::HashSet::new();
            for _ in 0..256 {
                let mut blk = [0u8; 16];
                rng.fill_bytes(&mut blk);
                derivable.insert(blk);
                derivable.insert(polytune::verif::aes_rng_first_block(blk));
            }
            for p in [a, b] {
                for pr in run.res.probes[p].iter().filter(|pr| (pr.site == "fresh:alsz_base_key" || pr.site == "fresh:alsz_seed_pairs") && pr.data.len() >= 16) {
                    *stats.entry("private_ot_values_compared_with_public_coins".into()).or_insert(0) += 1;
                    let first: [u8; 16] = pr.data[..16].try_into().unwrap();
                    if derivable.contains(&first) {
                        v.push(Violation { class: "private-randomness-derived-from-public-coins".into(), ..mk(
                            "private-ot-randomness-derived-from-public-coins",
                            format!(
                                "party {p}: the value used at '{}' equals a block of (or the AES generator's first output for a block of) the ChaCha20 stream seeded with the XOR of the 'RNG ver' openings of the pair ({a},{b}) - the peer can compute it",
                                pr.site
                            ),
                        ) });
                        break;
                    }
                }
            }
        }
    }
    // the same first coefficient in two sessions of one party (n = 2: one pair)
    for p in 0..n {
        let mut seen: BTreeMap<Vec<u8>, usize> = BTreeMap::new();
        for pr in run.res.probes[p].iter().filter(|pr| pr.site == "kos_chi0_sender" || pr.site == "kos_chi0_receiver") {
            *seen.entry(pr.data.clone()).or_insert(0) += 1;
        }
        let reused = seen.values().filter(|c| **c > 1).count();
        let max_pairs = n - 1;
        // with n-1 peers, up to n-1 different pairs may legitimately... never share; any repeat is reuse
        let _ = max_pairs;
        if reused > 0 {
            v.push(mk(
                "kos-coefficients-reused-between-sessions",
                format!("party {p}: {reused} first KOS check coefficient(s) were used in more than one OT-extension session ({:?} uses)", seen.values().collect::<Vec<_>>()),
            ));
        }
    }
    // multi-party seed: XOR of the second-round openings
    let mut seed = [0u8; 32];
    let mut have = true;
    let mut last_open = 0;
    for a in 0..n {
        let b = (a + 1) % n;
        match kth(a, b, "RNG ver", 1).and_then(|m| payload32(m).map(|x| (x, m.ord))) {
            Some((x, o)) => {
                for i in 0..32 {
                    seed[i] ^= x[i];
                }
                last_open = last_open.max(o);
            }
            None => have = false,
        }
    }
    if have {
        // the engine draws from this generator: one 16-byte seed per fabitn call, one shuffle per faand call
        let fab: Vec<&Vec<u8>> = run.res.probes[0].iter().filter(|p| p.site == "fabitn_r0").map(|p| &p.data).collect();
        let perms: Vec<&Vec<u8>> = run.res.probes[0].iter().filter(|p| p.site == "bucket_perm").map(|p| &p.data).collect();
        *stats.entry("abit_checks_probed".into()).or_insert(0) += fab.len() as u64;
        *stats.entry("bucket_assignments_probed".into()).or_insert(0) += perms.len() as u64;
        let mut rng = ChaCha20Rng::from_seed(seed);
        // replay the draw sequence of mpc(): fashare, then per AND batch: fashare, shuffle
        let first_abit_data = tr.iter().filter(|m| m.phase == "KOS_OT_corr").map(|m| m.ord).min();
        let mut fi = 0;
        let mut pi = 0;
        let total_draws = fab.len() + perms.len();
        let mut predicted_fab = 0;
        let mut predicted_perm = 0;
        for d in 0..total_draws {
            // order: fab, then (fab, perm) pairs
            let is_perm = d >= 1 && (d - 1) % 2 == 1;
            if !is_perm {
                let mut s16 = [0u8; 16];
                rng.fill_bytes(&mut s16);
                let r0 = polytune::verif::aes_rng_first_block(s16);
                if fi < fab.len() && fab[fi].as_slice() == r0 {
                    predicted_fab += 1;
                }
                fi += 1;
            } else {
                if pi < perms.len() {
                    let lprime = perms[pi].len() / 4;
                    let mut idx: Vec<usize> = (0..lprime).collect();
                    idx.shuffle(&mut rng);
                    let bytes: Vec<u8> = idx.iter().flat_map(|x| (*x as u32).to_le_bytes()).collect();
                    // a permutation of fewer than 25 elements can match by chance (5! = 120): only
                    // permutations with a negligible chance of coincidence (25! > 2^83) count
                    if lprime >= 25 && bytes == *perms[pi] {
                        predicted_perm += 1;
                    }
                    if lprime < 25 {
                        *stats.entry("bucket_permutations_too_short_to_decide".into()).or_insert(0) += 1;
                    }
                }
                pi += 1;
            }
        }
        if predicted_fab > 0 && Some(last_open) < first_abit_data {
            v.push(mk(
                "abit-test-combinations-predicted-from-initial-toss",
                format!("{predicted_fab} of {} aBit test strings equal the output of the AES generator seeded from the multi-party toss opened at operation {last_open}, before any OT output existed (first 'KOS_OT_corr' at {:?})", fab.len(), first_abit_data),
            ));
        }
        if predicted_perm > 0 {
            let first_laand = tr.iter().filter(|m| m.phase == "flaand hash").map(|m| m.ord).min();
            v.push(mk(
                "bucket-assignment-predicted-from-initial-toss",
                format!("{predicted_perm} of {} bucket permutations equal the shuffle driven by the multi-party toss opened at operation {last_open}, before the leaky AND triples were checked (first 'flaand hash' at {:?})", perms.len(), first_laand),
            ));
        }
    }
    // ---- second form of the predictor: the derivation with a toss mixed in (a fresh coin toss per check).
    // A toss whose openings were all on the wire before the data under check lets an outsider compute
    // the challenge just the same; alarm on exact match only.
    // (a) KOS, n = 2: session k mixes 32 bytes of the pairwise stream with the k-th 'KOS_OT_toss_open' pair
    if n == 2 {
        if let (Some(x), Some(y)) = (kth(0, 1, "RNG ver", 0).and_then(payload32), kth(1, 0, "RNG ver", 0).and_then(payload32)) {
            let seed0: [u8; 32] = std::array::from_fn(|i| x[i] ^ y[i]);
            let mut stream = ChaCha20Rng::from_seed(seed0);
            let mut setups: Vec<u64> = tr.iter().filter(|m| m.phase == "ALSZ_OT_setup").map(|m| m.ord).collect();
            setups.sort();
            for (k, setup_ord) in setups.iter().enumerate() {
                let mut draw = [0u8; 32];
                stream.fill_bytes(&mut draw);
                let (Some(oa), Some(ob)) = (kth(0, 1, "KOS_OT_toss_open", k), kth(1, 0, "KOS_OT_toss_open", k)) else { continue };
                *stats.entry("kos_tosses_seen".into()).or_insert(0) += 1;
                if oa.ord > *setup_ord || ob.ord > *setup_ord {
                    continue;
                }
                let (Some(a), Some(b)) = (payload32(oa), payload32(ob)) else { continue };
                let seed: [u8; 32] = std::array::from_fn(|i| draw[i] ^ a[i] ^ b[i]);
                let mut first = [0u8; 16];
                ChaCha20Rng::from_seed(seed).fill_bytes(&mut first);
                for p in 0..2 {
                    let chis: Vec<&Vec<u8>> = run.res.probes[p].iter().filter(|pr| pr.site.starts_with("kos_chi0")).map(|pr| &pr.data).collect();
                    if chis.get(k).is_some_and(|c| c.as_slice() == first) {
                        v.push(mk(
                            "kos-coefficients-predicted-from-toss-before-data",
                            format!("OT session {k}: the coin toss for the KOS coefficients was opened (operations {} / {}) before the 'ALSZ_OT_setup' matrix was sent (operation {setup_ord}); the first coefficient used at party {p} equals the outsider's prediction", oa.ord, ob.ord),
                        ));
                    }
                }
            }
        }
    }
    // (b) aBit test strings and bucket permutation: t-th fresh multi-party toss (round t + 2 of 'RNG ver')
    if have {
        let fab: Vec<&Vec<u8>> = run.res.probes[0].iter().filter(|p| p.site == "fabitn_r0").map(|p| &p.data).collect();
        let perms: Vec<&Vec<u8>> = run.res.probes[0].iter().filter(|p| p.site == "bucket_perm").map(|p| &p.data).collect();
        let fab_msgs: Vec<u64> = tr.iter().filter(|m| m.from == 0 && m.to == 1 && m.phase == "fabitn").map(|m| m.ord).collect();
        let dval_msgs: Vec<u64> = tr.iter().filter(|m| m.from == 0 && m.to == 1 && m.phase == "dvalue").map(|m| m.ord).collect();
        let mut stream = ChaCha20Rng::from_seed(seed);
        let total = fab.len() + perms.len();
        let (mut fi, mut pi) = (0usize, 0usize);
        for t in 0..total {
            let is_perm = t >= 1 && (t - 1) % 2 == 1;
            // the fresh toss of this check, if the tree makes one
            let mut fresh_seed = [0u8; 32];
            let mut last = 0u64;
            let mut ok = true;
            for a in 0..n {
                match kth(a, (a + 1) % n, "RNG ver", t + 2).and_then(|m| payload32(m).map(|x| (x, m.ord))) {
                    Some((x, o)) => {
                        for i in 0..32 {
                            fresh_seed[i] ^= x[i];
                        }
                        last = last.max(o);
                    }
                    None => ok = false,
                }
            }
            if !ok {
                break;
            }
            *stats.entry("fresh_multi_party_tosses_seen".into()).or_insert(0) += 1;
            let mut fresh = ChaCha20Rng::from_seed(fresh_seed);
            if !is_perm {
                let mut old16 = [0u8; 16];
                stream.fill_bytes(&mut old16);
                let mut f16 = [0u8; 16];
                fresh.fill_bytes(&mut f16);
                let data_ord = fab_msgs.get(fi).map(|fo| tr.iter().filter(|m| m.phase == "KOS_OT_corr" && m.ord < *fo).map(|m| m.ord).max().unwrap_or(0)).unwrap_or(0);
                let s16: [u8; 16] = std::array::from_fn(|i| old16[i] ^ f16[i]);
                if last < data_ord && fi < fab.len() && fab[fi].as_slice() == polytune::verif::aes_rng_first_block(s16) {
                    v.push(mk(
                        "abit-test-combinations-predicted-from-toss-before-data",
                        format!("aBit check {fi}: the coin toss mixed into the test strings was opened at operation {last}, before the last OT output (operation {data_ord}); the outsider's prediction matches"),
                    ));
                }
                fi += 1;
            } else {
                // the engine draws these with `random::<[u8; 32]>()` (element-wise sampling), so do the same
                let old32: [u8; 32] = stream.random();
                let f32_: [u8; 32] = fresh.random();
                let data_ord = dval_msgs.get(pi).map(|d| tr.iter().filter(|m| m.phase == "flaand hash" && m.ord < *d).map(|m| m.ord).max().unwrap_or(0)).unwrap_or(0);
                if last < data_ord && pi < perms.len() {
                    let sd: [u8; 32] = std::array::from_fn(|i| old32[i] ^ f32_[i]);
                    let mut r = ChaCha20Rng::from_seed(sd);
                    let lprime = perms[pi].len() / 4;
                    let mut idx: Vec<usize> = (0..lprime).collect();
                    idx.shuffle(&mut r);
                    let bytes: Vec<u8> = idx.iter().flat_map(|x| (*x as u32).to_le_bytes()).collect();
                    if lprime >= 25 && bytes == *perms[pi] {
                        v.push(mk(
                            "bucket-assignment-predicted-from-toss-before-data",
                            format!("bucket permutation {pi}: the coin toss mixed into it was opened at operation {last}, before the leaky triples were checked (operation {data_ord}); the outsider's prediction matches"),
                        ));
                    }
                }
                pi += 1;
            }
        }
    }
    (v, stats)
}

impl Check for C04 {
    fn id(&self) -> &'static str {
        "C04"
    }
    fn level(&self) -> &'static str {
        "fault_enumeration"
    }
    fn rule(&self) -> String {
        "three sub-checks. A (fault enumeration): per attack configuration (n in {2,3}) every verification step of the preprocessing is attacked with a deviation for which the protocol promises detection - coin-toss commitment / opening (message and, through a tap, the cheater using the other seed itself), base-OT point and both ciphertexts of a base OT, one ALSZ column flipped in 64 of 128 rows, an empty (or one-row-short) OT-extension matrix together with an all-zero KOS check answer (in full runs and against a single KOS session, where the sender itself must refuse), each KOS check field, aBit check bit / MAC, aShare commitments c0+c1 and cm / claimed bit / MAC / opening, HaAND pair, LaAND e / u / commitment / check value, d-value bit / MAC, Beaver d / e / MACs, echo hashes of the verified broadcast (n=3), own d-value and Beaver openings through taps, same-element field combinations (check bit + MAC, Beaver d + e, all d bits of a bucket), and liars that stay consistent with their own commitments (claimed bit / MAC / non-canonical bit byte of 'fashare ver', or a decommitment cut short by one byte / to the bit / to nothing, with a recomputed cm; a wrong key sum with recomputed c0 / c1) - at first / last / random index, towards one recipient and (n=3, broadcast values) consistently towards all; scripted adversary for message deviations, live + tap for self-consistent lies; an honest party that received the bad value and returns Ok is a violation. B (history check over every run of A and the honest reference runs): no honest party sends its k-th 'RNG ver' / 'fashare ver' / 'fashare di_bi' / 'flaand hash' before it completed the receive of every other party's k-th commitment (operation order numbers). C (predictor vs probe, honest runs): the first KOS check coefficient, the aBit test string and the bucket permutation, probed inside the engine, are compared with what an outsider computes from the coin-toss openings seen on the wire strictly before the data under check was sent; alarm only on an exact match (128-bit values; permutations of at least 25 elements, since a shorter one can coincide by chance), or when two OT sessions used the same first coefficient. The same sub-check compares each party's private OT-extension randomness (probed base key and first seed) with what the pair's public coins determine (the first 256 blocks of the pairwise generator's stream and the AES generator's first output for each): no match allowed. distinct = (configuration, deviation) with an effective fault".into()
    }
    fn assumptions(&self) -> Vec<String> {
        vec![
            "deviations with a designed non-negligible escape probability (a single flipped ALSZ row, a tampered commitment that is never opened by design, the sender's own OT correction) are not in the must-detect list".into(),
            "an Err that is only the closed channel of a self-aborted live cheater is inconclusive; the scripted run of the same deviation decides".into(),
        ]
    }
    fn cases(&self, tier: Tier, seed: u64) -> Vec<Value> {
        let k = match tier {
            Tier::Quick => 12,
            Tier::Thorough => 160,
        };
        let mut v = vec![];
        for k in 0..k {
            for sh in 0..4 {
                v.push(json!({"seed": seed, "k": k, "shard": sh, "thorough": tier == Tier::Thorough}));
            }
        }
        // one KOS session against a receiver that sends a short matrix and a zero check answer
        for k in 0..(if tier == Tier::Quick { 6 } else { 60 }) {
            v.push(json!({"seed": seed, "k": k, "kos_matrix": true}));
        }
        v
    }
    fn run_case(&self, case: &Value, cx: &CaseCx) -> CaseOut {
        if case.get("kos_matrix").is_some() {
            let mut out = CaseOut::default();
            let seed = case["seed"].as_u64().unwrap();
            let k = case["k"].as_u64().unwrap();
            let mut rng = entropy::rng(seed, 0xc04b, k);
            let spec = crate::checks::preproc::OtSpec {
                len: [1usize, 8, 40, 128, 200][rng.random_range(0..5)],
                order: 2,
                choice_mode: 2,
                corr_mode: 0,
                cap: 0,
                seed: rng.random(),
                sched: crate::sim::SchedSpec { strategy: crate::sim::Strategy::Uniform, seed: rng.random(), explicit: vec![] },
            };
            for one_short in [false, true] {
                cx.begin(&json!({"kos_matrix": spec, "one_short": one_short}));
                let (v, steps) = crate::checks::preproc::kos_short_matrix_attack(&spec, one_short);
                out.evals += 1;
                out.sim_steps += steps;
                out.count("kos_sessions_against_a_short_matrix", 1);
                out.distinct.push(entropy::mix(spec.seed, one_short as u64, spec.len as u64));
                out.violations.extend(v);
            }
            return out;
        }
        let mut out = CaseOut::default();
        let seed = case["seed"].as_u64().unwrap();
        let k = case["k"].as_u64().unwrap();
        let shard = case["shard"].as_u64().unwrap();
        let n = if k % 2 == 0 { 2 } else { 3 };
        let cfg = gen_attack_cfg(seed, 400 + k, n, (k / 2) % 2 == 0, 5 + (k % 3) as usize);
        let r = reference(&cfg);
        let base_json = serde_json::to_value(&cfg.base).unwrap();
        if !r.ok {
            out.violations.push(Violation { class: "harness-error".into(), detail: format!("reference run failed: {:?}", r.ends), key: "reference".into(), spec: base_json });
            return out;
        }
        if shard == 0 {
            // B and C on the honest run
            let hr = crate::mpcrun::run_recorded(&cfg.base);
            out.evals += 1;
            let all: Vec<usize> = (0..n).collect();
            let (vb, checked) = oracle_b(n, &all, &hr.res.transcript, &hr.res.recvs, &json!({"honest": cfg.base}));
            out.count("B:reveals_checked", checked);
            out.violations.extend(vb);
            let (vc, stats) = oracle_c(n, &hr, &json!({"honest": cfg.base}));
            for (k, v) in stats {
                out.count(&format!("C:{k}"), v);
            }
            out.violations.extend(vc);
        }
        for (i, d) in deviations_ex(&cfg, &r, seed, case["thorough"].as_bool().unwrap_or(false)).into_iter().enumerate() {
            if i as u64 % 4 != shard {
                continue;
            }
            cx.begin(&serde_json::to_value(&d).unwrap());
            let run = run_attack(&d.spec, Some(r.run.clone()));
            out.evals += 1;
            out.sim_steps += run.res.steps;
            out.merge_fired(&run.res.fired);
            let effective = if d.spec.taps.is_empty() { fault_effective(&run) } else { run.res.tap_fired > 0 };
            if !effective {
                out.count("fault_without_effect", 1);
                continue;
            }
            out.count(&format!("A:{}", d.kind.split('#').next().unwrap_or("")), 1);
            out.distinct.push(entropy::fnv(0, serde_json::to_string(&(&d.spec.faults, &d.spec.taps, cfg.base.seed)).unwrap().as_bytes()));
            count_honest_errs(&mut out, &d.spec, &run);
            let (va, inc) = oracle_a(&d, &run);
            out.count("A:inconclusive_victims", inc);
            out.violations.extend(va);
            let honest = honest_parties(&d.spec);
            let (vb, checked) = oracle_b(n, &honest, &run.res.transcript, &run.res.recvs, &serde_json::to_value(&d).unwrap());
            out.count("B:reveals_checked", checked);
            out.violations.extend(vb);
            if out.samples.is_empty() {
                out.samples.push(json!({"configuration": cfg.base.sample(), "corrupted": cfg.c, "deviation": d.kind, "fault": describe_fault(&d.spec), "victims": d.victims,
                    "results": run.res.ends.iter().map(|e| e.summary()).collect::<Vec<_>>()}));
            }
        }
        out
    }
    fn replay(&self, spec: &Value) -> Vec<Violation> {
        if let Some(o) = spec.get("kos_matrix") {
            return match serde_json::from_value::<crate::checks::preproc::OtSpec>(o.clone()) {
                Ok(s) => crate::checks::preproc::kos_short_matrix_attack(&s, spec["one_short"] == true).0,
                Err(_) => vec![],
            };
        }
        if let Some(h) = spec.get("honest") {
            let Some(base) = parse_spec(h) else { return vec![] };
            let n = base.n();
            let hr = crate::mpcrun::run_recorded(&base);
            let all: Vec<usize> = (0..n).collect();
            let mut v = oracle_b(n, &all, &hr.res.transcript, &hr.res.recvs, spec).0;
            v.extend(oracle_c(n, &hr, spec).0);
            return v;
        }
        let Ok(d) = serde_json::from_value::<Dev>(spec.clone()) else { return vec![] };
        let run = run_attack(&d.spec, None);
        let mut v = oracle_a(&d, &run).0;
        let honest = honest_parties(&d.spec);
        v.extend(oracle_b(d.spec.n(), &honest, &run.res.transcript, &run.res.recvs, spec).0);
        v
    }
}

#[allow(dead_code)]
fn _unused(_: Sel) {}
