//! Check framework: case enumeration, worker processes, aggregation, minimisation, replay files,
//! known findings, evidence.
use serde::{Deserialize, Serialize};
use serde_json::{Value, json};
use std::collections::{BTreeMap, BTreeSet};
use std::io::{BufRead, BufReader, Write};
use std::path::PathBuf;
use std::process::{Command, Stdio};
use std::sync::{Arc, Mutex};
use std::time::Instant;

#[derive(Clone, Copy, Debug, PartialEq, Eq)]
pub enum Tier {
    Quick,
    Thorough,
}
impl Tier {
    pub fn name(&self) -> &'static str {
        match self {
            Tier::Quick => "quick",
            Tier::Thorough => "thorough",
        }
    }
    pub fn parse(s: &str) -> Option<Tier> {
        match s {
            "quick" => Some(Tier::Quick),
            "thorough" => Some(Tier::Thorough),
            _ => None,
        }
    }
}

#[derive(Clone, Debug, Serialize, Deserialize)]
pub struct Violation {
    /// violation class, e.g. "wrong-output", "panic", "deadlock"
    pub class: String,
    pub detail: String,
    /// identifies the specific site / input / history, for the known-findings file
    pub key: String,
    /// replayable description of the failing sub-case
    pub spec: Value,
}

#[derive(Clone, Debug, Default, Serialize, Deserialize)]
pub struct CaseOut {
    pub evals: u64,
    pub violations: Vec<Violation>,
    /// hashes of distinct non-trivial cases (by the check's rule)
    pub distinct: Vec<u64>,
    pub counters: BTreeMap<String, u64>,
    pub samples: Vec<Value>,
    /// data handed to `finish` for cross-case analysis
    pub carry: Vec<Value>,
    pub sim_steps: u64,
    /// set by the worker when its resident memory has grown large (the HTTP server's router leaks
    /// its swagger page by design - `Box::leak` in aide - once per constructed node): the parent
    /// replaces the worker process after this case
    #[serde(default)]
    pub recycle: bool,
}

impl CaseOut {
    pub fn count(&mut self, k: &str, by: u64) {
        *self.counters.entry(k.to_string()).or_insert(0) += by;
    }
    pub fn merge_fired(&mut self, fired: &BTreeMap<String, u64>) {
        for (k, v) in fired {
            self.count(&format!("fired:{k}"), *v);
        }
    }
}

pub struct CaseCx {
    pub inflight: Option<PathBuf>,
}
impl CaseCx {
    /// Record the sub-case about to run, so that a process abort still yields a replayable case.
    pub fn begin(&self, spec: &Value) {
        if let Some(p) = &self.inflight {
            let _ = std::fs::write(p, serde_json::to_vec(spec).unwrap_or_default());
        }
    }
}

pub trait Check: Sync + Send {
    fn id(&self) -> &'static str;
    fn level(&self) -> &'static str;
    fn rule(&self) -> String;
    fn assumptions(&self) -> Vec<String>;
    fn real_components(&self) -> Vec<&'static str> {
        vec!["polytune::mpc (protocol, preprocessing, OT extension, garbling, serde)", "temp-file spill buffers"]
    }
    fn stub_components(&self) -> Vec<&'static str> {
        vec!["transport (SimChannel over SimNet)", "task scheduler (own executor, one baton)", "entropy source (seeded ChaCha8 behind getrandom)"]
    }
    fn cases(&self, tier: Tier, seed: u64) -> Vec<Value>;
    fn run_case(&self, case: &Value, cx: &CaseCx) -> CaseOut;
    /// Re-run one failing sub-case; returns the violations it exhibits.
    fn replay(&self, spec: &Value) -> Vec<Violation>;
    fn shrink(&self, _spec: &Value) -> Vec<Value> {
        vec![]
    }
    /// Cross-case analysis over everything the cases carried.
    fn finish(&self, _carries: &[Value], _tier: Tier) -> (Vec<Violation>, BTreeMap<String, Value>) {
        (vec![], BTreeMap::new())
    }
}

pub fn verif_root() -> PathBuf {
    PathBuf::from(std::env::var("POLYSIM_ROOT").unwrap_or_else(|_| "/verif".to_string()))
}

pub fn default_seed() -> u64 {
    std::env::var("VERIF_SEED")
        .ok()
        .and_then(|s| s.trim().parse::<i64>().ok())
        .map(|x| x as u64)
        .unwrap_or(20260925)
}

#[derive(Clone, Debug, Deserialize)]
pub struct Finding {
    pub property: String,
    pub key: String,
    pub status: String,
    #[serde(default)]
    pub what: String,
    #[serde(default)]
    pub commit: String,
}

pub fn load_findings() -> Vec<Finding> {
    let p = verif_root().join("known_findings.json");
    let Ok(s) = std::fs::read_to_string(p) else {
        return vec![];
    };
    let v: Value = serde_json::from_str(&s).unwrap_or(json!({}));
    v.get("findings")
        .and_then(|f| serde_json::from_value::<Vec<Finding>>(f.clone()).ok())
        .unwrap_or_default()
}

// ---------------------------------------------------------------------------------------------
// worker side

/// Worker loop: read case indices from stdin, write one JSON line per finished case to stdout.
pub fn worker_main(check: &dyn Check, tier: Tier, seed: u64, wid: usize) {
    crate::sim::install_panic_hook();
    let cases = check.cases(tier, seed);
    let outdir = verif_root().join("out").join(check.id());
    let _ = std::fs::create_dir_all(&outdir);
    let cx = CaseCx {
        inflight: Some(outdir.join(format!("inflight-{wid}.json"))),
    };
    let stdin = std::io::stdin();
    let stdout = std::io::stdout();
    for line in stdin.lock().lines() {
        let Ok(line) = line else { break };
        let Ok(i) = line.trim().parse::<usize>() else { break };
        if i >= cases.len() {
            break;
        }
        let mut out = check.run_case(&cases[i], &cx);
        let rss_mib = std::fs::read_to_string("/proc/self/statm").ok().and_then(|s| s.split(' ').nth(1).and_then(|x| x.parse::<u64>().ok())).unwrap_or(0) * 4096 / (1 << 20);
        out.recycle = rss_mib > 600;
        let recycle = out.recycle;
        let mut o = stdout.lock();
        let _ = writeln!(o, "{}", serde_json::to_string(&out).expect("serialise case result"));
        let _ = o.flush();
        if recycle {
            break;
        }
    }
}

// ---------------------------------------------------------------------------------------------
// parent side

struct Shared {
    next: usize,
    total: usize,
    outs: Vec<CaseOut>,
    aborts: Vec<Violation>,
}

fn spawn_worker(id: &str, tier: Tier, seed: u64, wid: usize) -> std::process::Child {
    Command::new(std::env::current_exe().expect("exe"))
        .args(["worker", id, tier.name(), &seed.to_string(), &wid.to_string()])
        .stdin(Stdio::piped())
        .stdout(Stdio::piped())
        .stderr(Stdio::inherit())
        .spawn()
        .expect("spawn worker")
}

fn drive_worker(id: String, tier: Tier, seed: u64, wid: usize, shared: Arc<Mutex<Shared>>) {
    let inflight = verif_root().join("out").join(&id).join(format!("inflight-{wid}.json"));
    let mut child = spawn_worker(&id, tier, seed, wid);
    let mut stdin = child.stdin.take().unwrap();
    let mut reader = BufReader::new(child.stdout.take().unwrap());
    loop {
        let i = {
            let mut s = shared.lock().unwrap();
            if s.next >= s.total {
                break;
            }
            s.next += 1;
            s.next - 1
        };
        let _ = std::fs::remove_file(&inflight);
        let ok = writeln!(stdin, "{i}").is_ok() && stdin.flush().is_ok();
        let mut line = String::new();
        let got = ok && reader.read_line(&mut line).map(|n| n > 0).unwrap_or(false);
        let parsed = if got { serde_json::from_str::<CaseOut>(&line).ok() } else { None };
        match parsed {
            Some(out) => {
                let recycle = out.recycle;
                shared.lock().unwrap().outs.push(out);
                if recycle {
                    drop(stdin);
                    let _ = child.wait();
                    child = spawn_worker(&id, tier, seed, wid);
                    stdin = child.stdin.take().unwrap();
                    reader = BufReader::new(child.stdout.take().unwrap());
                }
            }
            None => {
                // the worker died (abort, allocation failure, stack overflow, double panic)
                let status = child.wait().map(|s| format!("{s}")).unwrap_or_default();
                let spec = std::fs::read_to_string(&inflight)
                    .ok()
                    .and_then(|s| serde_json::from_str::<Value>(&s).ok())
                    .unwrap_or(json!({"case_index": i}));
                shared.lock().unwrap().aborts.push(Violation {
                    class: "process-abort".into(),
                    detail: format!("worker process died while running case {i}: {status}"),
                    key: "process-abort".into(),
                    spec,
                });
                child = spawn_worker(&id, tier, seed, wid);
                stdin = child.stdin.take().unwrap();
                reader = BufReader::new(child.stdout.take().unwrap());
            }
        }
    }
    drop(stdin);
    let _ = child.wait();
}

fn same_failure(vs: &[Violation], class: &str, key: &str) -> bool {
    vs.iter().any(|v| v.class == class && v.key == key)
}

fn minimise(check: &dyn Check, v: &Violation, budget_s: f64) -> Violation {
    let t0 = Instant::now();
    let mut cur = v.clone();
    let mut runs = 0;
    'outer: loop {
        for cand in check.shrink(&cur.spec) {
            if t0.elapsed().as_secs_f64() > budget_s || runs > 400 {
                break 'outer;
            }
            runs += 1;
            let vs = check.replay(&cand);
            if let Some(nv) = vs.into_iter().find(|x| x.class == cur.class && x.key == cur.key) {
                cur = nv;
                continue 'outer;
            }
        }
        break;
    }
    cur
}

/// Replays the file in a fresh process; true if it reproduces the same class and key.
fn replay_in_fresh_process(id: &str, path: &PathBuf, class: &str, key: &str) -> bool {
    let out = Command::new(std::env::current_exe().expect("exe"))
        .args(["replay", id, path.to_str().unwrap()])
        .output();
    match out {
        Ok(o) => {
            let s = String::from_utf8_lossy(&o.stdout);
            s.lines().any(|l| l.contains(&format!("REPRODUCED class={class} key={key}")))
        }
        Err(_) => false,
    }
}

pub fn replay_main(check: &dyn Check, path: &str) -> i32 {
    crate::sim::install_panic_hook();
    let Ok(s) = std::fs::read_to_string(path) else {
        eprintln!("cannot read {path}");
        return 2;
    };
    let Ok(v) = serde_json::from_str::<Value>(&s) else {
        eprintln!("cannot parse {path}");
        return 2;
    };
    let spec = v.get("spec").cloned().unwrap_or(Value::Null);
    let vs = check.replay(&spec);
    if vs.is_empty() {
        println!("NOT-REPRODUCED property={} replay={path}", check.id());
        return 0;
    }
    for x in &vs {
        println!("REPRODUCED class={} key={} detail={}", x.class, x.key, x.detail);
    }
    println!("VIOLATION property={} replay={path}", check.id());
    1
}

pub fn run_check(check: &dyn Check, tier: Tier, seed: u64) -> i32 {
    // the parent replays candidates in-process while minimising: same silent, recording hook
    crate::sim::install_panic_hook();
    let t0 = Instant::now();
    let id = check.id();
    let root = verif_root();
    let outdir = root.join("out").join(id);
    let _ = std::fs::remove_dir_all(&outdir);
    std::fs::create_dir_all(&outdir).expect("out dir");
    std::fs::create_dir_all(root.join("evidence")).expect("evidence dir");
    std::fs::create_dir_all(root.join("replays")).expect("replays dir");
    println!("polysim check={id} tier={} VERIF_SEED={seed}", tier.name());

    let cases = check.cases(tier, seed);
    let total = cases.len();
    let workers: usize = std::env::var("POLYSIM_WORKERS")
        .ok()
        .and_then(|s| s.parse().ok())
        .unwrap_or(16)
        .min(total.max(1));
    let shared = Arc::new(Mutex::new(Shared {
        next: 0,
        total,
        outs: vec![],
        aborts: vec![],
    }));
    let mut ths = vec![];
    for w in 0..workers {
        let sh = shared.clone();
        let ids = id.to_string();
        ths.push(std::thread::spawn(move || drive_worker(ids, tier, seed, w, sh)));
    }
    for t in ths {
        let _ = t.join();
    }
    let shared = Arc::try_unwrap(shared).ok().expect("workers done").into_inner().unwrap();

    // aggregate
    let mut evals = 0u64;
    let mut sim_steps = 0u64;
    let mut distinct: BTreeSet<u64> = BTreeSet::new();
    let mut counters: BTreeMap<String, u64> = BTreeMap::new();
    let mut samples: Vec<Value> = vec![];
    let mut carries: Vec<Value> = vec![];
    let mut violations: Vec<Violation> = shared.aborts;
    for o in shared.outs {
        evals += o.evals;
        sim_steps += o.sim_steps;
        distinct.extend(o.distinct);
        for (k, v) in o.counters {
            *counters.entry(k).or_insert(0) += v;
        }
        if samples.len() < 6 {
            samples.extend(o.samples.into_iter().take(2));
        }
        carries.extend(o.carry);
        violations.extend(o.violations);
    }
    let (fin_v, extra) = check.finish(&carries, tier);
    violations.extend(fin_v);

    // harness errors never count as violations
    let harness_errors: Vec<&Violation> = violations.iter().filter(|v| v.class == "harness-error").collect();
    if !harness_errors.is_empty() {
        for h in harness_errors.iter().take(5) {
            eprintln!("HARNESS-ERROR {}: {}", h.key, h.detail);
        }
        return 2;
    }

    // group by (class, key); report one (minimised, replay-verified) representative per group
    let findings = load_findings();
    let mut groups: BTreeMap<(String, String), Vec<Violation>> = BTreeMap::new();
    for v in violations {
        groups.entry((v.class.clone(), v.key.clone())).or_default().push(v);
    }
    let mut exit = 0;
    let mut n_viol = 0usize;
    let mut known_lines = vec![];
    let mut viol_summ = vec![];
    for (gi, ((class, key), vs)) in groups.iter().enumerate() {
        let known = findings
            .iter()
            .find(|f| f.property == id && f.key == *key && f.status == "known");
        if let Some(f) = known {
            let line = format!("KNOWN-FINDING: property={id} {} [{} occurrence(s), key={key}]", f.what, vs.len());
            println!("{line}");
            known_lines.push(line);
            continue;
        }
        n_viol += vs.len();
        // minimise + verify by replay in a fresh process
        let budget = if gi < 4 { 40.0 } else { 5.0 };
        let first = &vs[0];
        let min = if first.spec.is_null() || class == "process-abort" {
            first.clone()
        } else {
            minimise(check, first, budget)
        };
        let fname = format!("{id}-{seed}-{gi}.json");
        let path = root.join("replays").join(&fname);
        let body = json!({
            "property": id, "class": class, "key": key, "seed": seed, "tier": tier.name(),
            "detail": min.detail, "occurrences": vs.len(),
            "spec": min.spec, "original_spec": first.spec,
        });
        std::fs::write(&path, serde_json::to_vec_pretty(&body).unwrap()).expect("write replay");
        let reproduced = if class == "process-abort" || min.spec.is_null() {
            true
        } else {
            let mut ok = replay_in_fresh_process(id, &path, class, key);
            if !ok {
                // fall back to the unminimised case
                let body = json!({
                    "property": id, "class": class, "key": key, "seed": seed, "tier": tier.name(),
                    "detail": first.detail, "occurrences": vs.len(), "spec": first.spec,
                });
                std::fs::write(&path, serde_json::to_vec_pretty(&body).unwrap()).expect("write replay");
                ok = replay_in_fresh_process(id, &path, class, key);
            }
            ok
        };
        if !reproduced {
            eprintln!(
                "HARNESS-ERROR: violation class={class} key={key} did not reproduce from its replay file {}: {}",
                path.display(),
                first.detail
            );
            return 2;
        }
        println!("violation class={class} key={key} occurrences={} detail={}", vs.len(), min.detail);
        println!("VIOLATION property={id} replay={}", path.display());
        viol_summ.push(json!({"class": class, "key": key, "occurrences": vs.len(), "detail": min.detail, "replay": path.display().to_string()}));
        exit = 1;
    }

    let wall = t0.elapsed().as_secs_f64();
    let mut coverage = json!({
        "evaluations": evals,
        "distinct_nontrivial": distinct.len(),
        "rule": check.rule(),
        "samples": samples,
        "exhaustive": false,
        "cases": total,
        "simulated_steps": sim_steps,
        "runs_per_hour": if wall > 0.0 { (evals as f64 / wall * 3600.0) as u64 } else { 0 },
        "counters": counters,
        "real_components": check.real_components(),
        "stub_components": check.stub_components(),
        "known_findings_reported": known_lines,
        "violation_summaries": viol_summ,
        "workers": workers,
    });
    for (k, v) in extra {
        coverage[k] = v;
    }
    let ev = json!({
        "property_id": id,
        "tier": tier.name(),
        "seed": seed as i64,
        "level": check.level(),
        "coverage": coverage,
        "assumptions": check.assumptions(),
        "wall_s": wall,
        "violations": n_viol,
    });
    let evp = root.join("evidence").join(format!("{id}.json"));
    std::fs::write(&evp, serde_json::to_vec_pretty(&ev).unwrap()).expect("write evidence");
    println!(
        "done check={id} evaluations={evals} distinct={} violations={n_viol} wall_s={wall:.1} evidence={}",
        distinct.len(),
        evp.display()
    );
    exit
}
