//! C08: hostile or vanishing peers cause an error return, never a panic or a hang.
use crate::checks::adversarial::*;
use crate::entropy;
use crate::framework::{CaseCx, CaseOut, Check, Tier, Violation};
use crate::mpcrun::{AdvMode, MpcRun, MpcSpec};
use crate::mutate;
use crate::sim::{End, FaultKind};
use serde_json::{Value, json};

pub struct C08;

/// The crate's own `SimpleChannel` (tokio mpsc + a 10-minute receive timeout) under a paused tokio
/// clock: a peer stops sending after its k-th message but keeps its channel ends open. Every
/// honest party must come back (with the receive timeout) within one virtual hour.
struct SilentAfter {
    inner: polytune::channel::SimpleChannel,
    k: usize,
    sent: std::cell::Cell<usize>,
}

impl polytune::channel::Channel for SilentAfter {
    type SendError = String;
    type RecvError = String;
    async fn send_bytes_to(&self, party: usize, data: Vec<u8>, phase: &str) -> Result<(), String> {
        if self.sent.get() >= self.k {
            return std::future::pending().await;
        }
        self.sent.set(self.sent.get() + 1);
        self.inner.send_bytes_to(party, data, phase).await.map_err(|e| format!("{e:?}"))
    }
    async fn recv_bytes_from(&self, party: usize, phase: &str) -> Result<Vec<u8>, String> {
        self.inner.recv_bytes_from(party, phase).await.map_err(|e| format!("{e:?}"))
    }
}

fn simple_channel_silent_peer(spec: &Value) -> Vec<Violation> {
    let n = spec["n"].as_u64().unwrap_or(2) as usize;
    let k = spec["k"].as_u64().unwrap_or(0) as usize;
    let seed = spec["seed"].as_u64().unwrap_or(0);
    let silent = spec["silent"].as_u64().unwrap_or(1) as usize;
    let spec2 = spec.clone();
    std::thread::spawn(move || {
        entropy::seed_thread(seed, 0x51e7);
        let rt = tokio::runtime::Builder::new_current_thread().enable_time().start_paused(true).build().expect("runtime");
        let local = tokio::task::LocalSet::new();
        let cfg = gen_attack_cfg(seed, 900 + k as u64, n, silent == 0, 2);
        let circuit = std::rc::Rc::new(cfg.base.circuit());
        let inputs = cfg.base.input_bits();
        let p_eval = cfg.base.p_eval;
        let p_out: Vec<usize> = (0..n).collect();
        let mut v = vec![];
        let outcome = local.block_on(&rt, async {
            let mut chans: Vec<Option<polytune::channel::SimpleChannel>> = polytune::channel::SimpleChannel::channels(n).into_iter().map(Some).collect();
            let mut honest = vec![];
            for p in 0..n {
                let ch = chans[p].take().unwrap();
                let (circuit, input, p_out) = (circuit.clone(), inputs[p].clone(), p_out.clone());
                if p == silent {
                    let w = SilentAfter { inner: ch, k, sent: std::cell::Cell::new(0) };
                    tokio::task::spawn_local(async move {
                        let _ = polytune::mpc(&w, &circuit, &input, p_eval, p, &p_out, None).await;
                        // never drop the channel ends
                        std::future::pending::<()>().await;
                    });
                } else {
                    honest.push((p, tokio::task::spawn_local(async move { polytune::mpc(&ch, &circuit, &input, p_eval, p, &p_out, None).await.map_err(|e| format!("{e:?}")) })));
                }
            }
            let mut res = vec![];
            for (p, h) in honest {
                match tokio::time::timeout(std::time::Duration::from_secs(3600), h).await {
                    Ok(Ok(r)) => res.push((p, Some(r))),
                    Ok(Err(e)) => res.push((p, Some(Err(format!("task failed: {e}"))))),
                    Err(_) => res.push((p, None)),
                }
            }
            res
        });
        for (p, r) in outcome {
            match r {
                None => v.push(Violation {
                    class: "hang".into(),
                    key: "hang:simple-channel-silent-peer".into(),
                    detail: format!("SimpleChannel, n={n}: party {silent} went silent after {k} messages with its channel ends open; honest party {p} was still waiting after one virtual hour"),
                    spec: spec2.clone(),
                }),
                Some(Err(e)) if e.contains("task failed") => v.push(Violation { class: "panic".into(), key: "panic:simple-channel".into(), detail: e, spec: spec2.clone() }),
                _ => {}
            }
        }
        v
    })
    .join()
    .unwrap_or_default()
}

const SHARDS: u64 = 16;

/// Oracle over one attacked run. `ref_alloc` = per-party (peak, largest) of the unfaulted run.
pub fn c08_oracle(spec: &MpcSpec, run: &MpcRun, ref_steps: u64, ref_alloc: &[(usize, usize)]) -> Vec<Violation> {
    let mut v = vec![];
    let honest = honest_parties(spec);
    let phase = phase_of_fault(run);
    let what = describe_fault(spec);
    for &h in &honest {
        match &run.res.ends[h] {
            End::Panic(m) => v.push(mk_violation(
                "panic",
                format!("panic:{}:{}", panic_key(m), phase),
                format!("honest party {h} panicked: {m} [{what}; phase '{phase}']"),
                spec,
            )),
            End::Blocked => {
                // waiting forever although every peer has terminated?
                let peers_done = (0..spec.n())
                    .filter(|p| *p != h)
                    .all(|p| !matches!(run.res.ends[p], End::Blocked));
                if peers_done {
                    v.push(mk_violation(
                        "hang",
                        format!("hang:{phase}"),
                        format!(
                            "honest party {h} still waits although all its peers have terminated ({}) [{what}]",
                            run.res.deadlock.clone().unwrap_or_default()
                        ),
                        spec,
                    ));
                }
            }
            _ => {}
        }
    }
    if run.res.step_limit || run.res.steps > 50 * ref_steps.max(100) {
        v.push(mk_violation(
            "unbounded-run",
            format!("unbounded-run:{phase}"),
            format!("run took {} steps, the honest run {ref_steps} [{what}]", run.res.steps),
            spec,
        ));
    }
    for &h in &honest {
        let recv_bytes: usize = run
            .res
            .recvs
            .iter()
            .filter(|r| r.party == h)
            .map(|r| run.res.transcript[r.tr].data.len())
            .sum();
        let (peak, largest) = run.res.alloc[h];
        let bound = ref_alloc.get(h).map(|a| a.0).unwrap_or(0) + (16 << 20) + 64 * recv_bytes;
        if peak > bound || largest > (256 << 20) {
            v.push(mk_violation(
                "allocation-out-of-proportion",
                format!("allocation:{phase}"),
                format!("honest party {h}: peak {peak} bytes, largest single request {largest}; bound {bound} ({recv_bytes} bytes received) [{what}]"),
                spec,
            ));
        }
    }
    v
}

#[derive(Clone, Debug)]
enum Sub {
    Fault(usize, FaultKind, AdvMode),
    Crash(usize),
}

fn enumerate(cfg: &AttackCfg, r: &RefRun, seed: u64, frac: u64, thorough: bool) -> Vec<Sub> {
    let mut subs = vec![];
    let ss = sites(&r.run, cfg.c);
    let mut rng = entropy::rng(seed, 0xc08, cfg.base.seed);
    for (si, s) in ss.iter().enumerate() {
        let m = &r.run.transcript[s.tr];
        for mu in mutate::catalogue(&s.phase, &m.data, &mut rng, thorough || si % 3 == 0) {
            subs.push(Sub::Fault(si, FaultKind::Mutate(mu), AdvMode::Scripted));
        }
        subs.push(Sub::Fault(si, FaultKind::Duplicate, AdvMode::Scripted));
        subs.push(Sub::Fault(si, FaultKind::ReplayOld(si / 2), AdvMode::Scripted));
        subs.push(Sub::Fault(si, FaultKind::Drop, AdvMode::Scripted));
        subs.push(Sub::Fault(si, FaultKind::SwapNext, AdvMode::Scripted));
    }
    // crash after every k-th message of the corrupted party (live)
    let total = ss.len();
    for k in 0..total {
        subs.push(Sub::Crash(k));
    }
    if frac > 1 {
        // seeded sample, rotating with VERIF_SEED
        let off = entropy::mix(seed, 0xc08f, 0) % frac;
        subs = subs.into_iter().enumerate().filter(|(i, _)| (*i as u64 + off) % frac == 0).map(|(_, s)| s).collect();
    }
    subs
}

fn cfg_of_case(case: &Value) -> AttackCfg {
    let seed = case["seed"].as_u64().unwrap();
    let k = case["cfg"].as_u64().unwrap();
    let n = case["n"].as_u64().unwrap() as usize;
    gen_attack_cfg(seed, k, n, case["c_is_eval"].as_bool().unwrap(), case["ands"].as_u64().unwrap() as usize)
}

impl Check for C08 {
    fn id(&self) -> &'static str {
        "C08"
    }
    fn level(&self) -> &'static str {
        "fault_enumeration"
    }
    fn rule(&self) -> String {
        "for each attack configuration (n in {2,3}; corrupted evaluator or garbler; honest victims in both roles) an honest reference run is recorded; then one fault per simulated run is injected into the corrupted party's outgoing traffic: every message index x every mutation class (empty, truncations, appended junk, same-length random, bit flip, byte overwrite, structure-aware on the decoded value tree: bool flip, invalid bool byte, 128-bit xor, option Some<->None, element count +-1 / 0 at every nesting level with consistent prefix, inconsistent length prefixes 2^20 / 2^40 / 2^63 / 2^64-1), all byte vectors of a message emptied / cut to one byte at once, duplicate, replace-by-earlier, drop, swap-with-next (scripted adversary: positional replay of the reference, victim sees a bit-identical prefix and every later message), a seeded swarm of runs with 2-4 random structure-aware edits, the multi-message and self-adapting liars of the C04 catalogue (malformed data that passes the first check it meets, e.g. a decommitment cut short together with a recomputed commitment), and crash after every k-th message (live adversary); plus the crate's own SimpleChannel on a paused tokio clock with a peer that goes silent after k messages while keeping its channel ends open (the honest parties must come back with the receive timeout within one virtual hour). n=3 configurations take a seeded third of the sites in quick. Oracle: every honest task reaches Ok/Err, no poll panics, no honest party waits once all its peers terminated, steps <= 50x honest, allocation peak <= honest peak + 16 MiB + 64 x bytes received and no single request above 256 MiB. evaluations = attacked runs; distinct = (configuration, message index, mutation) triples whose fault actually fired".into()
    }
    fn assumptions(&self) -> Vec<String> {
        vec![
            "one fault per run; the corrupted party's links ignore capacity".into(),
            "a global stall in which no party has terminated is recorded as 'stall among live peers', not as a violation of this property's wording".into(),
            "worker processes isolate aborts (allocation failure, stack overflow): an abort is reported as a violation with the in-flight case".into(),
        ]
    }
    fn cases(&self, tier: Tier, seed: u64) -> Vec<Value> {
        let mut v = vec![];
        let cfgs: Vec<(usize, bool, u64, u64)> = match tier {
            // (n, corrupted is evaluator, config index, site sampling divisor)
            Tier::Quick => vec![(2, true, 0, 1), (2, false, 1, 1), (3, true, 2, 3), (3, false, 3, 3)],
            Tier::Thorough => {
                let mut c = vec![];
                for k in 0..6 {
                    c.push((2, k % 2 == 0, k, 1));
                }
                for k in 6..12 {
                    c.push((3, k % 2 == 0, k, 1));
                }
                c
            }
        };
        let ks: &[u64] = if tier == Tier::Quick { &[0, 5, 20, 45] } else { &[0, 1, 2, 3, 5, 8, 13, 20, 30, 45, 60, 69, 100] };
        for n in [2u64, 3] {
            for k in ks {
                v.push(json!({"simple_channel": true, "seed": seed, "n": n, "k": k, "silent": (k + n) % n}));
            }
        }
        for (n, ce, k, frac) in cfgs {
            for sh in 0..SHARDS {
                v.push(json!({"seed": seed, "cfg": k, "n": n, "c_is_eval": ce, "ands": 3, "shard": sh, "frac": frac, "thorough": tier == Tier::Thorough}));
            }
        }
        v
    }
    fn run_case(&self, case: &Value, cx: &CaseCx) -> CaseOut {
        let mut out = CaseOut::default();
        if case.get("simple_channel").is_some() {
            cx.begin(case);
            out.evals += 1;
            out.count("simple_channel_silent_peer_runs", 1);
            out.distinct.push(entropy::fnv(0, case.to_string().as_bytes()));
            out.violations.extend(simple_channel_silent_peer(case));
            return out;
        }
        let cfg = cfg_of_case(case);
        let seed = case["seed"].as_u64().unwrap();
        let shard = case["shard"].as_u64().unwrap();
        let r = reference(&cfg);
        if !r.ok {
            out.violations.push(Violation {
                class: "harness-error".into(),
                detail: format!("reference run failed: {:?}", r.ends),
                key: "reference".into(),
                spec: serde_json::to_value(&cfg.base).unwrap(),
            });
            return out;
        }
        // wire-format self check on the honest transcript
        for m in &r.run.transcript {
            match crate::schema::decode_msg(&m.phase, &m.data) {
                Ok(v) if crate::schema::encode_msg(&v) == *m.data => {}
                other => {
                    out.violations.push(Violation {
                        class: "harness-error".into(),
                        detail: format!("schema table out of date for phase '{}': {:?}", m.phase, other.err()),
                        key: "schema".into(),
                        spec: Value::Null,
                    });
                    return out;
                }
            }
        }
        let ss = sites(&r.run, cfg.c);
        let subs = enumerate(&cfg, &r, seed, case["frac"].as_u64().unwrap(), case["thorough"].as_bool().unwrap_or(false));
        // swarm of multi-fault runs
        for (i, spec) in random_multi_faults(&cfg, &r, seed, if case["thorough"].as_bool().unwrap_or(false) { 1600 } else { 160 }).iter().enumerate() {
            if i as u64 % SHARDS != shard {
                continue;
            }
            cx.begin(&serde_json::to_value(spec).unwrap());
            let run = run_attack(spec, Some(r.run.clone()));
            out.evals += 1;
            out.sim_steps += run.res.steps;
            out.merge_fired(&run.res.fired);
            if !fault_effective(&run) {
                continue;
            }
            out.count("multi_fault_swarm_runs", 1);
            out.distinct.push(entropy::fnv(0, serde_json::to_string(&(&spec.faults, cfg.base.seed)).unwrap().as_bytes()));
            out.violations.extend(c08_oracle(spec, &run, r.steps, &r.alloc));
        }
        // malformed data that passes the first check it meets: the liars of the C04 catalogue that stay
        // consistent with their own commitments (incl. decommitments cut short with a recomputed
        // commitment) or adapt their own state through a tap, and the d-value opening left out
        for (i, d) in crate::checks::c04::deviations(&cfg, &r, seed).into_iter().filter(|d| d.spec.faults.len() > 1 || !d.spec.taps.is_empty()).enumerate() {
            if i as u64 % SHARDS != shard {
                continue;
            }
            cx.begin(&serde_json::to_value(&d.spec).unwrap());
            let run = run_attack(&d.spec, Some(r.run.clone()));
            out.evals += 1;
            out.sim_steps += run.res.steps;
            out.merge_fired(&run.res.fired);
            out.count("self_consistent_liar_runs", 1);
            out.distinct.push(entropy::fnv(0, serde_json::to_string(&(&d.spec.faults, &d.spec.taps, cfg.base.seed)).unwrap().as_bytes()));
            out.violations.extend(c08_oracle(&d.spec, &run, r.steps, &r.alloc));
        }
        for (i, sub) in subs.iter().enumerate() {
            if i as u64 % SHARDS != shard {
                continue;
            }
            let spec = match sub {
                Sub::Fault(si, kind, mode) => attacked_spec(&cfg, mode.clone(), vec![fault_at(cfg.c, &ss[*si], kind.clone())], vec![], None, &r.decisions),
                Sub::Crash(k) => {
                    let mut sp = attacked_spec(&cfg, AdvMode::Live, vec![], vec![], Some((cfg.c, *k)), &r.decisions);
                    // both real behaviours of a transport towards a vanished peer: the send fails, or it
                    // is swallowed and only the next receive notices
                    sp.send_to_closed_errs = k % 2 == 0;
                    sp
                }
            };
            cx.begin(&serde_json::to_value(&spec).unwrap());
            let run = run_attack(&spec, Some(r.run.clone()));
            out.evals += 1;
            out.sim_steps += run.res.steps;
            out.merge_fired(&run.res.fired);
            if !fault_effective(&run) {
                out.count("fault_without_effect", 1);
                continue;
            }
            if run.res.prefix_identical == Some(false) {
                out.violations.push(Violation {
                    class: "harness-error".into(),
                    detail: "attacked run diverged from the reference before the fault".into(),
                    key: "prefix".into(),
                    spec: serde_json::to_value(&spec).unwrap(),
                });
            }
            out.distinct.push(entropy::fnv(0, serde_json::to_string(&(&spec.faults, &spec.crash, cfg.base.seed)).unwrap().as_bytes()));
            let honest = honest_parties(&spec);
            for &h in &honest {
                out.count(&format!("honest_end:{}", run.res.ends[h].kind()), 1);
            }
            if run.res.deadlock.is_some() && honest.iter().filter(|h| matches!(run.res.ends[**h], End::Blocked)).count() >= 2 {
                out.count("stall_among_live_peers", 1);
            }
            count_honest_errs(&mut out, &spec, &run);
            let v = c08_oracle(&spec, &run, r.steps, &r.alloc);
            if out.samples.is_empty() && i % 97 == 0 {
                out.samples.push(json!({"configuration": cfg.base.sample(), "corrupted": cfg.c, "fault": describe_fault(&spec),
                    "honest_results": honest.iter().map(|h| run.res.ends[*h].summary()).collect::<Vec<_>>()}));
            }
            out.violations.extend(v);
        }
        out
    }
    fn replay(&self, spec: &Value) -> Vec<Violation> {
        if spec.get("simple_channel").is_some() {
            return simple_channel_silent_peer(spec);
        }
        let Some(spec) = parse_spec(spec) else { return vec![] };
        let cfg = AttackCfg {
            base: {
                let mut b = spec.clone();
                b.faults.clear();
                b.taps.clear();
                b.crash = None;
                b.adversary = None;
                b.sched.explicit.clear();
                b
            },
            c: spec.adversary.as_ref().map(|a| a.0).unwrap_or(0),
        };
        let r = reference(&cfg);
        let run = run_attack(&spec, Some(r.run.clone()));
        c08_oracle(&spec, &run, r.steps, &r.alloc)
    }
}
