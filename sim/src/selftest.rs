//! Determinism self-test: the same seed must give the same event log in this process, in other
//! processes, and at different degrees of parallelism; an untampered scripted replay must leave
//! every live party byte-identical to the reference run.
use crate::checks::honest::gen_honest;
use crate::entropy;
use crate::mpcrun::{self, AdvMode};
use rand::Rng;
use std::process::Command;

pub fn fingerprint(seed: u64, k: u64) -> String {
    let mut rng = entropy::rng(seed, 0x5e1f, k);
    let n = [2, 2, 3, 3, 4][rng.random_range(0..5)];
    let ands = if k % 16 == 15 { 1001 } else { rng.random_range(0..20) };
    let others = rng.random_range(0..12);
    let spec = gen_honest(&mut rng, n, ands, others, &[0, 1, 2]);
    let run = mpcrun::run_recorded(&spec);
    let mut s = format!(
        "k={k} tr={:016x} sched={:016x} steps={} ends={:?}",
        run.res.transcript_hash(),
        run.res.sched_hash,
        run.res.steps,
        run.res.ends.iter().map(|e| e.summary()).collect::<Vec<_>>()
    );
    // scripted replay of one party without faults
    if k % 4 == 0 {
        let c = rng.random_range(0..n);
        let mut s2 = spec.clone();
        s2.adversary = Some((c, AdvMode::Scripted));
        let reference = run.res.reference();
        let r2 = mpcrun::run(&s2, Some(reference.clone()));
        let mut same = true;
        for p in 0..n {
            if p == c {
                continue;
            }
            let a: Vec<_> = reference.transcript.iter().filter(|m| m.from == p).map(|m| (m.to, m.idx, m.data.clone())).collect();
            let b: Vec<_> = r2.res.transcript.iter().filter(|m| m.from == p).map(|m| (m.to, m.idx, m.data.clone())).collect();
            if a != b {
                same = false;
            }
        }
        let ends2: Vec<String> = r2.res.ends.iter().map(|e| e.summary()).collect();
        s.push_str(&format!(" scripted[{c}] same_traffic={same} ends={ends2:?}"));
        if !same {
            s.push_str(" SCRIPTED-DIVERGED");
        }
    }
    s
}

/// Simulator B: the same seed must give the same event log (every third k explores MPC messages one by one).
pub fn server_fingerprint(seed: u64, k: u64) -> String {
    let mut rng = entropy::rng(seed, 0x5e1f5, k);
    let n = if k % 3 == 2 { 3 } else { 2 };
    let np = 1 + (k % 3) as usize;
    let policies = (0..np).map(|c| crate::checks::srv::gen_policy(&mut rng, n, c as u64 + 1, &[0, 1, 2, 3, 4])).collect();
    let mut spec = crate::checks::srv::base_spec(&mut rng, n, policies, vec![2; n], k % 3 != 0);
    // every other server run goes through the real HTTP server nodes
    spec.http = (k / 4) % 2 == 1;
    let run = crate::server::run(&spec);
    let mut dh = 0;
    for d in &run.decisions {
        dh = entropy::fnv(dh, d.as_bytes());
    }
    format!("srv k={k} log={:016x} decisions={:016x} events={} msgs={} outputs={:?}", run.log_hash, dh, run.events, run.msgs, run.outputs.iter().map(|o| format!("{}:{:?}", o.party, o.result)).collect::<Vec<_>>())
}

fn line(seed: u64, k: u64) -> String {
    if k % 4 == 3 { server_fingerprint(seed, k) } else { fingerprint(seed, k) }
}

pub fn child(seed: u64, from: u64, to: u64) {
    crate::sim::install_panic_hook();
    for k in from..to {
        println!("{}", line(seed, k));
    }
}

pub fn main(count: u64) -> i32 {
    crate::sim::install_panic_hook();
    let seed = crate::framework::default_seed();
    let t0 = std::time::Instant::now();
    // pass 1: this process, sequential
    let local: Vec<String> = (0..count).map(|k| line(seed, k)).collect();
    if let Some(l) = local.iter().find(|l| l.contains("SCRIPTED-DIVERGED")) {
        eprintln!("HARNESS-ERROR: scripted replay diverged from the reference run: {l}");
        return 2;
    }
    // pass 2: 16 concurrent child processes; pass 3: 3 child processes
    for procs in [16u64, 3] {
        let per = count.div_ceil(procs);
        let mut kids = vec![];
        for i in 0..procs {
            let (a, b) = (i * per, ((i + 1) * per).min(count));
            if a >= b {
                continue;
            }
            kids.push((
                a,
                Command::new(std::env::current_exe().unwrap())
                    .args(["selftest-child", &seed.to_string(), &a.to_string(), &b.to_string()])
                    .output(),
            ));
        }
        for (a, out) in kids {
            let out = out.expect("child ran");
            let text = String::from_utf8_lossy(&out.stdout);
            for (i, line) in text.lines().enumerate() {
                let k = a as usize + i;
                if line != local[k] {
                    eprintln!("HARNESS-ERROR: nondeterminism at k={k}\n  here : {}\n  child: {line}", local[k]);
                    return 2;
                }
            }
            if text.lines().count() as u64 != (((a / per) + 1) * per).min(count) - a {
                eprintln!("HARNESS-ERROR: child for range starting at {a} printed {} lines", text.lines().count());
                return 2;
            }
        }
    }
    println!(
        "selftest-determinism: {count} seeds (3 of 4 engine runs incl. scripted replay, 1 of 4 server runs) x 3 executions (1 local + 16-process + 3-process pools) identical; unseeded entropy bytes: {}; {:.1}s",
        entropy::UNSEEDED_BYTES.load(std::sync::atomic::Ordering::Relaxed),
        t0.elapsed().as_secs_f64()
    );
    0
}
