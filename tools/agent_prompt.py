#!/usr/bin/env python3
"""Print the sub-agent prompt for one property (text of the property only, nothing from /verif)."""
import json, sys
pid, wt = sys.argv[1], sys.argv[2]
extra = sys.argv[3] if len(sys.argv) > 3 else ""
for l in open('/verif/properties.jsonl'):
    d = json.loads(l)
    if d['id'] == pid:
        break
else:
    sys.exit("no such property")
print(f"""You are helping to evaluate a verification effort by seeding a realistic bug. You work ONLY inside the scratch git worktree {wt} (a checkout of the Rust repository sine-fdn/polytune: an engine for maliciously-secure multi-party computation with authenticated garbling, WRK17). Do not read or touch /verif or /repo. The sandbox is offline: always pass --offline to cargo (or set CARGO_NET_OFFLINE=true).

Here is a semantic property the code base is supposed to satisfy:

  Title: {d['title']}
  Statement: {d['statement']}
  Quantified over: {d['quantifier']['text']}
  Code it is anchored in: {', '.join(d['anchors']['files'])}

Your task: produce ONE small, realistic source change to the repository (the kind of slip a maintainer could make in a refactor or an optimisation: an off-by-one, a dropped or weakened check, a wrong index or role, a reordering, a wrong constant, a wrong branch condition) that BREAKS this property, while
  (a) the workspace still compiles, and
  (b) the existing tests that pass today still pass. The tests `eval_mixed_circuits` and `eval_garble_prg_3pc` in tests/protocol.rs and the examples' `simulate` tests for api-integration/sql-integration are known to time out on the unchanged tree already; skip them. A good command set is:
        cd {wt} && cargo test --offline -p polytune --lib
        cd {wt} && cargo test --offline -p polytune --test protocol -- --skip eval_mixed_circuits --skip eval_garble_prg_3pc
        cd {wt} && cargo test --offline -p polytune-server-core
      (add `-p polytune-http-server` if you touched the server crates). To save build time you may first copy /repo/target to {wt}/target (dependencies are then reused).
The change must need something SPECIFIC to manifest -- a particular interleaving or message schedule, a fault or a malicious/corrupted message at a particular point, a particular role assignment (e.g. evaluator != party 0, a party outside the output set), a size beyond a batch boundary, a multi-step sequence of operations, an unusual input, or two cooperating sites that each look fine alone -- not something that ordinary use or the existing tests expose at once. Prefer a change whose effect is a wrong result, a missed detection, a leak, a hang/deadlock, a panic, or a leaked resource that is clearly a violation of the property statement above. {extra}

Also write a DEMONSTRATION: a Rust test (new file under tests/ or a #[cfg(test)] module, or a small example program) that FAILS with your change applied and PASSES on the unchanged code. Verify both directions yourself (git stash / git stash pop, or apply/revert the patch).

Deliverables, all under {wt}/SEEDED/ :
  - patch.diff : output of `git diff` for the source change ONLY (not the demonstration), applicable with `git apply` at the repository root.
  - demo/... : the demonstration file(s) plus a short run.sh showing exactly how to run it (where to copy the file, which cargo command), and what output to expect with and without the patch.
  - NOTES.md : which property it breaks and why, what it needs in order to manifest, which commands you ran and their results (existing tests with the patch; demo with and without).
Leave the worktree with the patch NOT applied to tracked files when you finish (git status clean apart from SEEDED/ and target/). Keep your final answer short: one paragraph describing the change and what triggers it.""")
