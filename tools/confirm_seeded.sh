#!/bin/bash
# Confirm a seeded change in its scratch worktree: demo passes without the patch, fails with it,
# existing tests pass with it. usage: confirm_seeded.sh <wt-dir> <dest-id> [pkg]
# Copies patch.diff, demo and a meta stub into /verif/seeded/<dest-id>/ with confirm.log.
wt=$1; id=$2; pkg=${3:-polytune}
dest=/verif/seeded/$id
mkdir -p $dest
cp $wt/SEEDED/patch.diff $dest/patch.diff
cp -r $wt/SEEDED/demo $dest/
cp $wt/SEEDED/NOTES.md $dest/NOTES.md 2>/dev/null
log=$dest/confirm.log
: > $log
cd $wt || exit 2
export CARGO_NET_OFFLINE=true
git checkout -q -- . 2>/dev/null
demo=$(ls SEEDED/demo/*.rs | head -1); name=$(basename $demo .rs)
if [ "$pkg" = "polytune" ]; then tdir=tests; else tdir=crates/$pkg/tests; mkdir -p $tdir; fi
cp $demo $tdir/$name.rs
echo "== demo WITHOUT patch (expect pass)" >> $log
nice cargo test --offline -p $pkg --test $name -- --test-threads=2 >> $log 2>&1; rc0=$?
git apply SEEDED/patch.diff || { echo "patch does not apply" >> $log; exit 2; }
echo "== demo WITH patch (expect fail)" >> $log
nice cargo test --offline -p $pkg --test $name -- --test-threads=2 >> $log 2>&1; rc1=$?
rm -f $tdir/$name.rs
echo "== existing tests WITH patch (expect pass)" >> $log
nice cargo test --offline -p polytune --lib >> $log 2>&1; t1=$?
nice cargo test --offline -p polytune --test protocol -- --skip eval_mixed_circuits --skip eval_garble_prg_3pc >> $log 2>&1; t2=$?
nice cargo test --offline -p polytune-server-core >> $log 2>&1; t3=$?
t4=0
if git diff --name-only | grep -q "crates/"; then nice cargo test --offline -p polytune-http-server >> $log 2>&1; t4=$?; fi
git checkout -q -- .
echo "RESULT id=$id demo_without=$rc0 demo_with=$rc1 lib=$t1 protocol=$t2 server_core=$t3 http=$t4" | tee -a $log
if [ $rc0 = 0 ] && [ $rc1 != 0 ] && [ $t1 = 0 ] && [ $t2 = 0 ] && [ $t3 = 0 ] && [ $t4 = 0 ]; then echo CONFIRMED | tee -a $log; else echo NOT-CONFIRMED | tee -a $log; fi
