//! Counting global allocator with thread-local current / peak / largest-single-request counters.
//! One party = one thread, so the counters are per party.
use std::alloc::{GlobalAlloc, Layout, System};
use std::cell::Cell;

pub struct Counting;

thread_local! {
    static CUR: Cell<isize> = const { Cell::new(0) };
    static PEAK: Cell<isize> = const { Cell::new(0) };
    static LARGEST: Cell<usize> = const { Cell::new(0) };
}

#[inline]
fn on_alloc(sz: usize) {
    let _ = CUR.try_with(|c| {
        let v = c.get() + sz as isize;
        c.set(v);
        let _ = PEAK.try_with(|p| {
            if v > p.get() {
                p.set(v)
            }
        });
    });
    let _ = LARGEST.try_with(|l| {
        if sz > l.get() {
            l.set(sz)
        }
    });
}

#[inline]
fn on_free(sz: usize) {
    let _ = CUR.try_with(|c| c.set(c.get() - sz as isize));
}

// SAFETY: delegates to System; only bookkeeping added.
unsafe impl GlobalAlloc for Counting {
    unsafe fn alloc(&self, l: Layout) -> *mut u8 {
        on_alloc(l.size());
        // SAFETY: forwarded.
        unsafe { System.alloc(l) }
    }
    unsafe fn dealloc(&self, p: *mut u8, l: Layout) {
        on_free(l.size());
        // SAFETY: forwarded.
        unsafe { System.dealloc(p, l) }
    }
    unsafe fn alloc_zeroed(&self, l: Layout) -> *mut u8 {
        on_alloc(l.size());
        // SAFETY: forwarded.
        unsafe { System.alloc_zeroed(l) }
    }
    unsafe fn realloc(&self, p: *mut u8, l: Layout, new: usize) -> *mut u8 {
        on_free(l.size());
        on_alloc(new);
        // SAFETY: forwarded.
        unsafe { System.realloc(p, l, new) }
    }
}

pub fn reset() {
    CUR.with(|c| c.set(0));
    PEAK.with(|c| c.set(0));
    LARGEST.with(|c| c.set(0));
}

/// (peak bytes since reset, largest single request since reset)
pub fn stats() -> (usize, usize) {
    (
        PEAK.with(|p| p.get().max(0) as usize),
        LARGEST.with(|l| l.get()),
    )
}
