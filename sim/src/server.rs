//! Simulator B: the policy state machines of polytune-server-core on a pinned-down tokio.
//!
//! `current_thread` runtime with a seeded `select!` generator and a paused clock used only as a
//! quiescence detector; every RPC between parties parks in `SimPolicyClient` until the explorer
//! delivers, fails or duplicates it; compile jobs are handed to the explorer through the
//! `__verif` spawner hook; harness calls (schedule, cancel, stray commands) are spawned at
//! explorer-chosen steps. One integer decides everything.
use crate::entropy;
use polytune::garble_lang::literal::Literal;
use polytune_server_core::{
    ConstsRequest, MpcMsg, OutputError, Policy, PolicyClient, PolicyClientBuilder, PolicyState, PolicyStateHandle, RunRequest, ValidateRequest,
};
use rand::Rng;
use rand_chacha::ChaCha8Rng;
use serde::{Deserialize, Serialize};
use std::collections::{BTreeMap, HashMap};
use std::sync::{Arc, Mutex};
use std::time::Duration;
use tokio::sync::{Semaphore, oneshot};
use url::Url;
use uuid::Uuid;

#[derive(Clone, Debug, Serialize, Deserialize, PartialEq)]
pub struct PolicySpec {
    /// computation id (small integer, mapped to a UUID)
    pub comp: u64,
    /// program template (see `program`)
    pub template: u8,
    pub leader: usize,
    /// u8 input per party
    pub inputs: Vec<u8>,
    /// per party: has an output destination
    pub dest: Vec<bool>,
    /// constant K supplied by these parties (template decides who must)
    pub const_k: u8,
    /// per party override of the program template (mismatch), None = same
    #[serde(default)]
    pub template_at: Vec<Option<u8>>,
    /// per party override of the leader field
    #[serde(default)]
    pub leader_at: Vec<Option<usize>>,
}

/// Program templates with independently known semantics.
pub fn program(template: u8, n: usize) -> String {
    let args: Vec<String> = (0..n).map(|p| format!("a{p}: u8")).collect();
    let names: Vec<String> = (0..n).map(|p| format!("a{p}")).collect();
    match template {
        0 => format!("pub fn main({}) -> u8 {{ {} }}", args.join(", "), names.join(" ^ ")),
        1 => format!("pub fn main({}) -> u8 {{ {} }}", args.join(", "), names.join(" & ")),
        2 => format!("const K: u8 = PARTY_0::K;\npub fn main({}) -> u8 {{ ({}) & K }}", args.join(", "), names.join(" ^ ")),
        3 => format!(
            "const K: u8 = PARTY_0::K;\nconst L: u8 = PARTY_1::L;\npub fn main({}) -> u8 {{ (({}) & K) ^ L }}",
            args.join(", "),
            names.join(" ^ ")
        ),
        4 => format!("pub fn main({}) -> u8 {{ ({}) | a0 }}", args.join(", "), names.join(" & ")),
        // near misses (C16): 10 and 11 consist of the same characters and differ only in where the
        // line break after a `//` comment falls - 10 computes the XOR of all inputs, 11 returns a0;
        // 12 differs from 0 only in its last characters
        10 => format!("pub fn main({}) -> u8 {{ a0 // first\n ^ {} }}", args.join(", "), names[1..].join(" ^ ")),
        11 => format!("pub fn main({}) -> u8 {{ a0 // first ^ {}\n }}", args.join(", "), names[1..].join(" ^ ")),
        12 => format!("pub fn main({}) -> u8 {{ {} ^ 1 }}", args.join(", "), names.join(" ^ ")),
        // ill-typed
        250 => format!("pub fn main({}) -> u8 {{ a0 + true }}", args.join(", ")),
        _ => format!("pub fn main({}) -> bool {{ a0 == a1 }}", args.join(", ")),
    }
}

pub fn expected(template: u8, inputs: &[u8], k: u8) -> Option<u8> {
    let x = inputs.iter().fold(0u8, |a, b| a ^ b);
    let a = inputs.iter().fold(0xffu8, |a, b| a & b);
    Some(match template {
        0 => x,
        1 => a,
        2 => x & k,
        3 => (x & k) ^ k.wrapping_add(1),
        4 => a | inputs[0],
        10 => x,
        11 => inputs[0],
        12 => x ^ 1,
        _ => return None,
    })
}

fn consts_for(template: u8, party: usize, k: u8) -> HashMap<String, Literal> {
    let mut m = HashMap::new();
    match (template, party) {
        (2, 0) | (3, 0) => {
            m.insert("K".to_string(), Literal::from(k));
        }
        (3, 1) => {
            m.insert("L".to_string(), Literal::from(k.wrapping_add(1)));
        }
        _ => {}
    }
    m
}

pub fn comp_uuid(c: u64) -> Uuid {
    Uuid::from_u128(0x1000_0000_0000_0000_0000_0000_0000_0000u128 + c as u128)
}

pub fn policy_for(ps: &PolicySpec, party: usize, n: usize) -> Policy {
    let template = ps.template_at.get(party).copied().flatten().unwrap_or(ps.template);
    let leader = ps.leader_at.get(party).copied().flatten().unwrap_or(ps.leader);
    Policy {
        computation_id: comp_uuid(ps.comp),
        participants: (0..n).map(|p| Url::parse(&format!("http://p{p}.sim/")).unwrap()).collect(),
        program: program(template, n),
        leader,
        party,
        input: Literal::from(ps.inputs[party]),
        output: if ps.dest[party] { Some(Url::parse(&format!("http://out{party}.sim/{}", ps.comp)).unwrap()) } else { None },
        constants: consts_for(template, party, ps.const_k),
    }
}

#[derive(Clone, Debug, Serialize, Deserialize, PartialEq)]
pub enum Verdict {
    Deliver,
    /// the caller gets an error, the callee never sees the call
    FailBefore,
    /// the callee processed the call, the caller gets an error (lost response)
    FailAfter,
    /// delivered twice (what a retrying client does); the caller sees the first answer
    Duplicate,
}

#[derive(Clone, Debug, Serialize, Deserialize, PartialEq)]
pub struct RpcFault {
    pub kind: String,
    pub from: usize,
    pub to: usize,
    pub comp: u64,
    /// n-th call of that kind on that (from, to, comp)
    pub nth: usize,
    pub verdict: Verdict,
}

#[derive(Clone, Debug, Serialize, Deserialize, PartialEq)]
pub enum Action {
    Cancel { party: usize, comp: u64 },
    /// the output destination of `party` reacts to the first notification it receives by cancelling:
    /// the Cancel command is enqueued from inside the delivery, i.e. while the task that delivers is
    /// still running (the interleaving a second runtime thread would produce)
    CancelFromOutput { party: usize, comp: u64 },
    /// a second schedule call with the party's own policy
    DupSchedule {
        party: usize,
        comp: u64,
        /// the second request carries this program template instead of the party's own
        #[serde(default, skip_serializing_if = "Option::is_none")]
        template: Option<u8>,
    },
    StrayRun { party: usize, comp: u64 },
    StrayConsts { party: usize, comp: u64, from: usize },
    StrayValidate { party: usize, comp: u64 },
    StrayMsg { party: usize, comp: u64, from: usize },
}

#[derive(Clone, Debug, Serialize, Deserialize, PartialEq)]
pub struct Injection {
    /// fires once this many explorer events have been executed
    pub after_events: usize,
    pub action: Action,
    /// fire in the same step as the `after_events`-th event, without letting the system quiesce in
    /// between: both commands are then queued at the state machine back to back
    #[serde(default)]
    pub burst: bool,
    /// fire in the same step as the event that follows `after_events` events, *before* it: the
    /// injected command is queued ahead of whatever that event makes the system do
    #[serde(default)]
    pub burst_before: bool,
}

#[derive(Clone, Debug, Serialize, Deserialize, PartialEq)]
pub struct ServerSpec {
    pub n: usize,
    pub policies: Vec<PolicySpec>,
    pub concurrency: Vec<usize>,
    pub seed: u64,
    /// explicit decision prefix (event labels), then seeded choice
    #[serde(default, skip_serializing_if = "Vec::is_empty")]
    pub explicit: Vec<String>,
    #[serde(default, skip_serializing_if = "Vec::is_empty")]
    pub faults: Vec<RpcFault>,
    #[serde(default, skip_serializing_if = "Vec::is_empty")]
    pub injections: Vec<Injection>,
    /// MPC `msg` calls are delivered without an explorer decision (coordination-focused runs)
    pub auto_msgs: bool,
    /// parties that never call schedule for the given computation (party, comp)
    #[serde(default, skip_serializing_if = "Vec::is_empty")]
    pub no_schedule: Vec<(usize, u64)>,
    pub max_events: usize,
    /// deliveries to the output destination are explorer events too ("slow destination")
    #[serde(default)]
    pub gate_outputs: bool,
    /// every party is a node of the real HTTP server (polytune-http-server: router, handlers,
    /// shared state, HTTP policy client); requests leave through a middleware that parks them
    /// with the explorer instead of a socket. Otherwise the routing rules of `api.rs` are played
    /// by this file (`get_or_insert` / `existing`).
    #[serde(default, skip_serializing_if = "std::ops::Not::not")]
    pub http: bool,
    /// the callers of schedule are slow: each schedule future is polled once when the call is made
    /// and not again before the end of the run (a client busy with something else); the answer
    /// must wait for it
    #[serde(default, skip_serializing_if = "std::ops::Not::not")]
    pub lazy_callers: bool,
}

#[derive(Clone, Debug)]
pub struct OutputRec {
    pub party: usize,
    pub comp: u64,
    /// Ok(literal as string) or Err(kind)
    pub result: Result<String, String>,
    pub seq: u64,
    /// fine-grained order (position in the log)
    pub ord: u64,
}

#[derive(Clone, Debug)]
pub struct CallRec {
    pub what: String,
    pub party: usize,
    pub comp: u64,
    pub issued_seq: u64,
    pub done_seq: Option<u64>,
    pub done_ord: Option<u64>,
    pub ok: Option<bool>,
    pub detail: String,
}

struct PendingRpc {
    id: u64,
    kind: &'static str,
    from: usize,
    to: usize,
    comp: u64,
    nth: usize,
    tx: Option<oneshot::Sender<Verdict>>,
}

#[derive(Default)]
struct Hub {
    handles: Vec<HashMap<u64, PolicyStateHandle>>,
    machines_started: Vec<(usize, u64)>,
    machines_stopped: Vec<(usize, u64, u64)>,
    pending: Vec<PendingRpc>,
    next_id: u64,
    rpc_counts: BTreeMap<(String, usize, usize, u64), usize>,
    outputs: Vec<OutputRec>,
    calls: Vec<CallRec>,
    log: Vec<String>,
    seq: u64,
    msgs: u64,
    msgs_by_comp: BTreeMap<u64, u64>,
    /// (party, comp) -> seq of "run sent to followers complete" and "mpc ended" for the overlap monitor
    leader_running: BTreeMap<(usize, u64), (u64, Option<u64>)>,
    auto_msgs: bool,
    gate_outputs: bool,
    fired: BTreeMap<String, u64>,
    /// (leader, comp) for which the leader started sending run requests (it then holds a permit)
    run_started: Vec<(usize, u64)>,
    /// armed "cancel from inside the output delivery": (party, comp, index of the call record)
    cancel_on_output: Vec<(usize, u64, usize)>,
    /// http mode: the routers of the nodes
    routers: Vec<Option<axum::Router>>,
    /// http mode: (party, comp) for which a request that creates a state machine (schedule,
    /// validate) was handed to the node's router since the last look at its table
    created_hint: Vec<(usize, u64)>,
}

type SharedHub = Arc<Mutex<Hub>>;

#[derive(Clone)]
pub struct SimClient {
    me: usize,
    comp: u64,
    hub: SharedHub,
    sems: Arc<Vec<Arc<Semaphore>>>,
}

#[derive(Clone)]
pub struct SimClientBuilder {
    me: usize,
    hub: SharedHub,
    sems: Arc<Vec<Arc<Semaphore>>>,
}

fn comp_of(id: &Uuid) -> u64 {
    (id.as_u128() & 0xffff_ffff_ffff_ffff) as u64
}

impl PolicyClientBuilder for SimClientBuilder {
    type Client = SimClient;
    fn new_client(&self, policy: &Policy) -> SimClient {
        SimClient {
            me: self.me,
            comp: comp_of(&policy.computation_id),
            hub: self.hub.clone(),
            sems: self.sems.clone(),
        }
    }
}

#[derive(Debug, thiserror::Error)]
#[error("rpc error: {0}")]
pub struct RpcErr(String);

/// The routing rules of the HTTP API (`api.rs`): schedule / validate create the machine; run /
/// consts / msg answer "unknown computation" when none exists; the handle disappears when
/// `start()` ends.
fn get_or_insert(hub: &SharedHub, sems: &Arc<Vec<Arc<Semaphore>>>, party: usize, comp: u64) -> PolicyStateHandle {
    let mut g = hub.lock().unwrap();
    if let Some(h) = g.handles[party].get(&comp) {
        return h.clone();
    }
    let builder = SimClientBuilder {
        me: party,
        hub: hub.clone(),
        sems: sems.clone(),
    };
    let (state, handle) = PolicyState::new(builder, sems[party].clone());
    g.handles[party].insert(comp, handle.clone());
    g.machines_started.push((party, comp));
    let hub2 = hub.clone();
    tokio::spawn(async move {
        state.start().await;
        let mut g = hub2.lock().unwrap();
        g.handles[party].remove(&comp);
        let seq = g.seq;
        g.machines_stopped.push((party, comp, seq));
        g.log.push(format!("machine p{party}/c{comp} stopped"));
    });
    handle
}

fn existing(hub: &SharedHub, party: usize, comp: u64) -> Option<PolicyStateHandle> {
    hub.lock().unwrap().handles[party].get(&comp).cloned()
}

/// Parks one outgoing call of `me` with the explorer and waits for its verdict.
async fn gate_call(hub: &SharedHub, me: usize, comp: u64, kind: &'static str, to: usize) -> Verdict {
    let rx = {
        let mut g = hub.lock().unwrap();
        if kind == "msg" {
            g.msgs += 1;
            *g.msgs_by_comp.entry(comp).or_insert(0) += 1;
            if g.auto_msgs {
                return Verdict::Deliver;
            }
        }
        if kind == "run" && !g.run_started.contains(&(me, comp)) {
            g.run_started.push((me, comp));
        }
        let key = (kind.to_string(), me, to, comp);
        let nth = {
            let e = g.rpc_counts.entry(key).or_insert(0);
            *e += 1;
            *e - 1
        };
        let (tx, rx) = oneshot::channel();
        g.next_id += 1;
        let id = g.next_id;
        g.pending.push(PendingRpc {
            id,
            kind,
            from: me,
            to,
            comp,
            nth,
            tx: Some(tx),
        });
        rx
    };
    rx.await.unwrap_or(Verdict::FailBefore)
}

impl SimClient {
    async fn gate(&self, kind: &'static str, to: usize) -> Verdict {
        gate_call(&self.hub, self.me, self.comp, kind, to).await
    }
}

// ---------------------------------------------------------------------------------------------
// http mode: the transport of the real HTTP policy client

/// One request through a node's real router (handlers, extractors, error mapping).
fn hint_created(hub: &SharedHub, party: usize, comp: u64, path: &str) {
    if path == "/schedule" || path == "/validate" {
        hub.lock().unwrap().created_hint.push((party, comp));
    }
}

async fn dispatch(router: axum::Router, path: &str, json: bool, body: Vec<u8>) -> (u16, Vec<u8>) {
    use tower::ServiceExt;
    let mut b = http::Request::builder().method("POST").uri(path);
    if json {
        b = b.header("content-type", "application/json");
    }
    let req = b.body(axum::body::Body::from(body)).expect("request");
    let resp = match router.oneshot(req).await {
        Ok(r) => r,
        Err(e) => match e {},
    };
    let status = resp.status().as_u16();
    let bytes = axum::body::to_bytes(resp.into_body(), usize::MAX).await.map(|b| b.to_vec()).unwrap_or_default();
    (status, bytes)
}

fn router_of(hub: &SharedHub, p: usize) -> Option<axum::Router> {
    hub.lock().unwrap().routers.get(p).cloned().flatten()
}

/// Innermost middleware of the HTTP client of node `me`: nothing reaches a socket.
struct SimTransport {
    me: usize,
    hub: SharedHub,
}

fn host_index(url: &Url, prefix: &str) -> Option<usize> {
    url.host_str()?.strip_prefix(prefix)?.strip_suffix(".sim")?.parse().ok()
}

fn record_output(hub: &SharedHub, me: usize, comp: u64, r: Result<String, String>) {
    let mut g = hub.lock().unwrap();
    let seq = g.seq;
    g.log.push(format!("output p{me}/c{comp} {r:?}"));
    let ord = g.log.len() as u64;
    g.outputs.push(OutputRec { party: me, comp, result: r, seq, ord });
}

#[async_trait::async_trait]
impl reqwest_middleware::Middleware for SimTransport {
    async fn handle(&self, req: reqwest::Request, _ext: &mut http::Extensions, _next: reqwest_middleware::Next<'_>) -> reqwest_middleware::Result<reqwest::Response> {
        let lost = |what: &str| reqwest_middleware::Error::Middleware(anyhow::anyhow!("{what}"));
        let url = req.url().clone();
        let body: Vec<u8> = req.body().and_then(|b| b.as_bytes()).map(|b| b.to_vec()).unwrap_or_default();
        let respond = |status: u16, body: Vec<u8>| -> reqwest::Response { reqwest::Response::from(http::Response::builder().status(status).body(body).expect("response")) };
        if let Some(p) = host_index(&url, "out") {
            // the output destination of party p: http://out<p>.sim/<comp>
            let comp: u64 = url.path().trim_start_matches('/').parse().unwrap_or(0);
            let gated = self.hub.lock().unwrap().gate_outputs;
            let mut lost_response = false;
            if gated {
                match gate_call(&self.hub, self.me, comp, "output", self.me).await {
                    Verdict::FailBefore => return Err(lost("output: request lost")),
                    Verdict::FailAfter => lost_response = true,
                    _ => {}
                }
            }
            let v: serde_json::Value = serde_json::from_slice(&body).unwrap_or(serde_json::Value::Null);
            let r = if v["type"] == "success" {
                match serde_json::from_value::<Literal>(v["details"].clone()) {
                    Ok(l) => Ok(format!("{l}")),
                    Err(e) => Err(format!("undecodable literal: {e}")),
                }
            } else {
                let t = v["details"].as_str().unwrap_or("").to_string();
                Err(if t.contains("policy evaluation has been cancelled") {
                    "Cancelled".to_string()
                } else if t.contains("error when requesting run from followers") {
                    "RequestRunError".to_string()
                } else if t.contains("error when sending consts") {
                    "SendConstsError".to_string()
                } else if let Some(i) = t.find("error during mpc evaluation: ") {
                    format!("MpcError({})", t[i + 29..].lines().next().unwrap_or(""))
                } else {
                    t.chars().take(60).collect()
                })
            };
            record_output(&self.hub, p, comp, r);
            if lost_response {
                return Err(lost("output: response lost"));
            }
            return Ok(respond(200, vec![]));
        }
        let Some(to) = host_index(&url, "p") else {
            return Err(lost("unknown host"));
        };
        let path = url.path().to_string();
        let segs: Vec<&str> = path.trim_matches('/').split('/').collect();
        let (kind, comp, json): (&'static str, u64, bool) = match segs.first().copied() {
            Some("msg") => ("msg", segs.get(1).and_then(|s| Uuid::parse_str(s).ok()).map(|u| comp_of(&u)).unwrap_or(0), false),
            Some(k) => {
                let v: serde_json::Value = serde_json::from_slice(&body).unwrap_or(serde_json::Value::Null);
                let comp = v["computation_id"].as_str().and_then(|s| Uuid::parse_str(s).ok()).map(|u| comp_of(&u)).unwrap_or(0);
                (
                    match k {
                        "validate" => "validate",
                        "run" => "run",
                        "consts" => "consts",
                        _ => "other",
                    },
                    comp,
                    true,
                )
            }
            None => ("other", 0, true),
        };
        let verdict = gate_call(&self.hub, self.me, comp, kind, to).await;
        if verdict == Verdict::FailBefore {
            return Err(lost("request lost"));
        }
        let Some(router) = router_of(&self.hub, to) else {
            return Err(lost("no such node"));
        };
        hint_created(&self.hub, to, comp, &path);
        let (status, rbody) = dispatch(router.clone(), &path, json, body.clone()).await;
        if verdict == Verdict::Duplicate {
            let _ = dispatch(router, &path, json, body).await;
        }
        if verdict == Verdict::FailAfter {
            return Err(lost("response lost"));
        }
        Ok(respond(status, rbody))
    }
}

macro_rules! rpc_impl {
    ($self:ident, $kind:literal, $to:ident, $create:expr, $call:expr) => {{
        let verdict = $self.gate($kind, $to).await;
        if verdict == Verdict::FailBefore {
            return Err(RpcErr(format!("{} {}->{}: request lost", $kind, $self.me, $to)));
        }
        let handle = if $create {
            Some(get_or_insert(&$self.hub, &$self.sems, $to, $self.comp))
        } else {
            existing(&$self.hub, $to, $self.comp)
        };
        let Some(handle) = handle else {
            return Err(RpcErr(format!("{} {}->{}: unknown computation", $kind, $self.me, $to)));
        };
        let r = $call(&handle).await;
        if verdict == Verdict::Duplicate {
            let _ = $call(&handle).await;
        }
        if verdict == Verdict::FailAfter {
            return Err(RpcErr(format!("{} {}->{}: response lost", $kind, $self.me, $to)));
        }
        r.map_err(|e| RpcErr(format!("{} {}->{}: {e:?}", $kind, $self.me, $to)))
    }};
}

impl PolicyClient for SimClient {
    type Error = RpcErr;

    async fn validate(&self, to: usize, req: ValidateRequest) -> Result<(), RpcErr> {
        rpc_impl!(self, "validate", to, true, |h: &PolicyStateHandle| {
            let h = h.clone();
            let req = req.clone();
            async move { h.validate(req).await }
        })
    }
    async fn run(&self, to: usize, req: RunRequest) -> Result<(), RpcErr> {
        rpc_impl!(self, "run", to, false, |h: &PolicyStateHandle| {
            let h = h.clone();
            let req = req.clone();
            async move { h.run(req).await }
        })
    }
    async fn consts(&self, to: usize, req: ConstsRequest) -> Result<(), RpcErr> {
        rpc_impl!(self, "consts", to, false, |h: &PolicyStateHandle| {
            let h = h.clone();
            let req = req.clone();
            async move { h.consts(req).await }
        })
    }
    async fn msg(&self, to: usize, msg: MpcMsg) -> Result<(), RpcErr> {
        rpc_impl!(self, "msg", to, false, |h: &PolicyStateHandle| {
            let h = h.clone();
            let msg = msg.clone();
            async move { h.mpc_msg(msg).await }
        })
    }
    async fn output(&self, _to: Url, result: Result<Literal, OutputError>) -> Result<(), RpcErr> {
        let gated = self.hub.lock().unwrap().gate_outputs;
        let mut lost_response = false;
        if gated {
            match self.gate("output", self.me).await {
                Verdict::FailBefore => return Err(RpcErr("output: request lost".into())),
                Verdict::FailAfter => lost_response = true,
                _ => {}
            }
        }
        let mut g = self.hub.lock().unwrap();
        let seq = g.seq;
        let r = match result {
            Ok(l) => Ok(format!("{l}")),
            Err(e) => Err(match e {
                OutputError::Cancelled => "Cancelled".to_string(),
                OutputError::RequestRunError { .. } => "RequestRunError".to_string(),
                OutputError::SendConstsError { .. } => "SendConstsError".to_string(),
                OutputError::MpcError(e) => format!("MpcError({e:?})"),
                other => format!("{other:?}").chars().take(60).collect(),
            }),
        };
        g.log.push(format!("output p{}/c{} {:?}", self.me, self.comp, r));
        let ord = g.log.len() as u64;
        g.outputs.push(OutputRec {
            party: self.me,
            comp: self.comp,
            result: r,
            seq,
            ord,
        });
        let armed = g.cancel_on_output.iter().position(|a| a.0 == self.me && a.1 == self.comp).map(|i| g.cancel_on_output.remove(i));
        let handle = g.handles[self.me].get(&self.comp).cloned();
        drop(g);
        if let (Some((_, _, idx)), Some(h)) = (armed, handle) {
            // poll the cancel future once right here: its first step enqueues the Cancel command
            let mut fut: std::pin::Pin<Box<dyn std::future::Future<Output = Result<(), polytune_server_core::HandleError<_>>> + Send>> = Box::pin(h.cancel());
            struct Noop;
            impl std::task::Wake for Noop {
                fn wake(self: Arc<Self>) {}
            }
            let waker = std::task::Waker::from(Arc::new(Noop));
            let mut cx = std::task::Context::from_waker(&waker);
            let hub = self.hub.clone();
            match fut.as_mut().poll(&mut cx) {
                std::task::Poll::Ready(r) => finish_call(&hub, idx, r.is_ok(), r.err().map(|e| format!("{e:?}")).unwrap_or_default()),
                std::task::Poll::Pending => {
                    tokio::spawn(async move {
                        let r = fut.await;
                        finish_call(&hub, idx, r.is_ok(), r.err().map(|e| format!("{e:?}")).unwrap_or_default());
                    });
                }
            }
        }
        if lost_response {
            return Err(RpcErr("output: response lost".into()));
        }
        Ok(())
    }
}

pub struct ServerRun {
    pub outputs: Vec<OutputRec>,
    pub calls: Vec<CallRec>,
    pub log: Vec<String>,
    pub decisions: Vec<String>,
    pub events: u64,
    pub msgs: u64,
    pub msgs_by_comp: BTreeMap<u64, u64>,
    pub machines_started: Vec<(usize, u64)>,
    pub machines_stopped: Vec<(usize, u64, u64)>,
    pub permits: Vec<usize>,
    /// tasks (machines) that panicked
    pub panics: Vec<String>,
    /// true when machines were still alive with nothing left to do
    pub stalled: bool,
    pub stalled_machines: Vec<(usize, u64)>,
    pub event_limit: bool,
    pub fired: BTreeMap<String, u64>,
    pub log_hash: u64,
    /// maximum number of computations each party led at the same time (between permit acquisition and release)
    pub max_overlap: Vec<usize>,
    /// maximum number of led computations per party that were between 'run requested' and 'machine stopped'
    pub max_led_active: Vec<usize>,
    pub pending_at_end: Vec<String>,
}

impl ServerRun {
    pub fn shallow_clone(&self) -> ServerRun {
        ServerRun {
            outputs: self.outputs.clone(),
            calls: self.calls.clone(),
            log: self.log.clone(),
            decisions: self.decisions.clone(),
            events: self.events,
            msgs: self.msgs,
            msgs_by_comp: self.msgs_by_comp.clone(),
            machines_started: self.machines_started.clone(),
            machines_stopped: self.machines_stopped.clone(),
            permits: self.permits.clone(),
            panics: self.panics.clone(),
            stalled: self.stalled,
            stalled_machines: self.stalled_machines.clone(),
            event_limit: self.event_limit,
            fired: self.fired.clone(),
            log_hash: self.log_hash,
            max_overlap: self.max_overlap.clone(),
            max_led_active: self.max_led_active.clone(),
            pending_at_end: self.pending_at_end.clone(),
        }
    }
}

#[derive(Clone, Debug, PartialEq)]
enum Ev {
    Rpc(u64, Verdict),
    Compile(usize),
    Schedule(usize, u64),
    Inject(usize),
}

fn ev_label(e: &Ev, hub: &Hub) -> String {
    match e {
        Ev::Rpc(id, v) => {
            let p = hub.pending.iter().find(|p| p.id == *id).unwrap();
            let vs = match v {
                Verdict::Deliver => "",
                Verdict::FailBefore => "!before",
                Verdict::FailAfter => "!after",
                Verdict::Duplicate => "!dup",
            };
            format!("{} {}>{} c{} #{}{}", p.kind, p.from, p.to, p.comp, p.nth, vs)
        }
        Ev::Compile(k) => format!("compile #{k}"),
        Ev::Schedule(p, c) => format!("schedule p{p} c{c}"),
        Ev::Inject(i) => format!("inject #{i}"),
    }
}

pub fn run(spec: &ServerSpec) -> ServerRun {
    // fresh thread: thread-local ThreadRng re-seeds from the run's entropy stream
    let spec = spec.clone();
    std::thread::Builder::new()
        .stack_size(32 << 20)
        .spawn(move || run_on_this_thread(&spec))
        .expect("spawn sim thread")
        .join()
        .expect("server simulation thread")
}

fn run_on_this_thread(spec: &ServerSpec) -> ServerRun {
    entropy::seed_thread(spec.seed, 0xb0b);
    crate::sim::PANIC_LOG.with(|c| c.borrow_mut().clear());
    let n = spec.n;
    let rt = tokio::runtime::Builder::new_current_thread()
        .enable_time()
        .start_paused(true)
        .rng_seed(tokio::runtime::RngSeed::from_bytes(&spec.seed.to_le_bytes()))
        .build()
        .expect("runtime");
    let hub: SharedHub = Arc::new(Mutex::new(Hub {
        handles: (0..n).map(|_| HashMap::new()).collect(),
        auto_msgs: spec.auto_msgs,
        gate_outputs: spec.gate_outputs,
        ..Default::default()
    }));
    let sems: Arc<Vec<Arc<Semaphore>>> = Arc::new((0..n).map(|p| Arc::new(Semaphore::new(spec.concurrency[p]))).collect());
    let _guard = rt.enter();
    // http mode: one real server node per party
    let nodes: Arc<Vec<polytune_http_server::verif::Node>> = Arc::new(if spec.http {
        (0..n)
            .map(|p| polytune_http_server::verif::Node::new(Arc::new(SimTransport { me: p, hub: hub.clone() }), spec.concurrency[p], None))
            .collect()
    } else {
        vec![]
    });
    if spec.http {
        hub.lock().unwrap().routers = nodes.iter().map(|nd| Some(nd.router())).collect();
    }
    let permits_of = |p: usize| -> usize { if spec.http { nodes[p].available_permits() } else { sems[p].available_permits() } };
    if spec.http {
        // exact lifetimes of the state machines the nodes create (observer hook in api.rs)
        let ids: Vec<usize> = nodes.iter().map(|nd| nd.id()).collect();
        let hub2 = hub.clone();
        polytune_http_server::verif::set_machine_observer(Some(std::rc::Rc::new(move |node, id, started| {
            let Some(p) = ids.iter().position(|x| *x == node) else { return };
            let c = comp_of(&id);
            let mut g = hub2.lock().unwrap();
            if started {
                g.machines_started.push((p, c));
            } else {
                let seq = g.seq;
                g.machines_stopped.push((p, c, seq));
                g.log.push(format!("machine p{p}/c{c} stopped"));
            }
        })));
    }
    // compile jobs go to the explorer
    let jobs: std::rc::Rc<std::cell::RefCell<Vec<Option<polytune_server_core::verif::thread::Job>>>> = Default::default();
    {
        let jobs = jobs.clone();
        polytune_server_core::verif::thread::set_spawner(Some(std::rc::Rc::new(move |j| jobs.borrow_mut().push(Some(j)))));
    }
    let mut rng: ChaCha8Rng = entropy::rng(spec.seed, 0x5e7, 0);
    let mut explicit: std::collections::VecDeque<String> = spec.explicit.iter().cloned().collect();
    let mut to_schedule: Vec<(usize, u64)> = vec![];
    for ps in &spec.policies {
        for p in 0..n {
            if !spec.no_schedule.contains(&(p, ps.comp)) {
                to_schedule.push((p, ps.comp));
            }
        }
    }
    let mut injections: Vec<(usize, bool)> = (0..spec.injections.len()).map(|i| (i, false)).collect();
    let mut decisions = vec![];
    let mut events = 0u64;
    let mut tasks: Vec<tokio::task::JoinHandle<()>> = vec![];
    type LazyFut = std::pin::Pin<Box<dyn std::future::Future<Output = Result<(), String>>>>;
    let mut lazy: Vec<(usize, LazyFut)> = vec![];
    let mut stalled = false;
    let mut event_limit = false;
    let mut max_overlap = vec![0usize; n];
    let mut max_led_active = vec![0usize; n];

    let record_call = |hub: &SharedHub, what: &str, party: usize, comp: u64| -> usize {
        let mut g = hub.lock().unwrap();
        let seq = g.seq;
        g.calls.push(CallRec {
            what: what.to_string(),
            party,
            comp,
            issued_seq: seq,
            done_seq: None,
            done_ord: None,
            ok: None,
            detail: String::new(),
        });
        g.calls.len() - 1
    };
    #[allow(clippy::items_after_statements)]
    fn _unused_marker() {}
    fn finish_call_inner(hub: &SharedHub, idx: usize, ok: bool, detail: String) {
        let mut g = hub.lock().unwrap();
        let seq = g.seq;
        let what = g.calls[idx].what.clone();
        let (p, c) = (g.calls[idx].party, g.calls[idx].comp);
        g.calls[idx].done_seq = Some(seq);
        g.calls[idx].done_ord = Some(g.log.len() as u64 + 1);
        g.calls[idx].ok = Some(ok);
        g.calls[idx].detail = detail.clone();
        g.log.push(format!("{what} p{p}/c{c} -> {}", if ok { "Ok".to_string() } else { format!("Err({})", detail.chars().take(80).collect::<String>()) }));
    }

    loop {
        // quiescence: with the paused clock the timer only fires when no task is runnable
        rt.block_on(async { tokio::time::sleep(Duration::from_millis(1)).await });
        // overlap monitor: permits taken per party
        for p in 0..n {
            let taken = spec.concurrency[p] - permits_of(p).min(spec.concurrency[p]);
            max_overlap[p] = max_overlap[p].max(taken);
        }
        {
            let g = hub.lock().unwrap();
            for p in 0..n {
                let active = g.run_started.iter().filter(|(l, c)| *l == p && !g.machines_stopped.iter().any(|m| m.0 == p && m.1 == *c)).count();
                max_led_active[p] = max_led_active[p].max(active);
            }
        }
        if events as usize >= spec.max_events {
            event_limit = true;
            break;
        }
        // enabled events
        let mut enabled: Vec<Ev> = vec![];
        {
            let g = hub.lock().unwrap();
            for p in &g.pending {
                if p.tx.is_none() {
                    continue;
                }
                let fault = spec
                    .faults
                    .iter()
                    .find(|f| f.kind == p.kind && f.from == p.from && f.to == p.to && f.comp == p.comp && f.nth == p.nth);
                enabled.push(Ev::Rpc(p.id, fault.map(|f| f.verdict.clone()).unwrap_or(Verdict::Deliver)));
            }
        }
        for (k, j) in jobs.borrow().iter().enumerate() {
            if j.is_some() {
                enabled.push(Ev::Compile(k));
            }
        }
        for (p, c) in &to_schedule {
            enabled.push(Ev::Schedule(*p, *c));
        }
        let mut forced = None;
        for (i, done) in injections.iter() {
            if !*done && !spec.injections[*i].burst_before && (events as usize >= spec.injections[*i].after_events + spec.injections[*i].burst as usize) {
                forced = Some(Ev::Inject(*i));
                break;
            }
        }
        if enabled.is_empty() && forced.is_none() {
            // injections that never became due fire now (run ended earlier than planned)
            if let Some((i, _)) = injections.iter().find(|(_, d)| !*d) {
                forced = Some(Ev::Inject(*i));
            } else {
                break;
            }
        }
        let ev = if let Some(f) = forced {
            f
        } else {
            let mut pick = None;
            while let Some(want) = explicit.pop_front() {
                let g = hub.lock().unwrap();
                if let Some(i) = enabled.iter().position(|e| ev_label(e, &g) == want) {
                    pick = Some(i);
                    break;
                }
            }
            let i = pick.unwrap_or_else(|| rng.random_range(0..enabled.len()));
            enabled[i].clone()
        };
        if !matches!(ev, Ev::Inject(_)) {
            let due: Vec<usize> = injections.iter().filter(|(i, d)| !*d && spec.injections[*i].burst_before && spec.injections[*i].after_events == events as usize).map(|(i, _)| *i).collect();
            for i in due {
                events += 1;
                {
                    let mut g = hub.lock().unwrap();
                    g.seq = events;
                    g.log.push(format!("[{events}] inject #{i} (burst, before the next event)"));
                }
                decisions.push(format!("inject #{i}"));
                fire_injection(i, spec, n, &rt, &hub, &sems, &nodes, &mut injections, &mut tasks, &record_call);
            }
        }
        events += 1;
        {
            let mut g = hub.lock().unwrap();
            g.seq = events;
            let l = ev_label(&ev, &g);
            if !l.starts_with("msg") {
                g.log.push(format!("[{events}] {l}"));
            }
            decisions.push(l);
        }
        match ev {
            Ev::Rpc(id, verdict) => {
                let mut g = hub.lock().unwrap();
                let name = match &verdict {
                    Verdict::Deliver => None,
                    v => Some(format!("rpc_{v:?}")),
                };
                if let Some(nm) = name {
                    *g.fired.entry(nm).or_insert(0) += 1;
                }
                if let Some(p) = g.pending.iter_mut().find(|p| p.id == id) {
                    if let Some(tx) = p.tx.take() {
                        let _ = tx.send(verdict);
                    }
                }
                g.pending.retain(|p| p.tx.is_some());
            }
            Ev::Compile(k) => {
                let job = jobs.borrow_mut()[k].take();
                if let Some(j) = job {
                    j();
                }
            }
            Ev::Schedule(p, c) => {
                to_schedule.retain(|x| *x != (p, c));
                let ps = spec.policies.iter().find(|x| x.comp == c).unwrap();
                let policy = policy_for(ps, p, n);
                let idx = record_call(&hub, "schedule", p, c);
                let (hub2, sems2) = (hub.clone(), sems.clone());
                if spec.http {
                    tasks.push(rt.spawn(async move {
                        let router = router_of(&hub2, p).expect("node");
                        hint_created(&hub2, p, c, "/schedule");
                        let (status, body) = dispatch(router, "/schedule", true, serde_json::to_vec(&policy).expect("policy")).await;
                        finish_call(&hub2, idx, status == 200, String::from_utf8_lossy(&body).chars().take(300).collect());
                    }));
                } else if spec.lazy_callers {
                    let h = get_or_insert(&hub2, &sems2, p, c);
                    let mut fut: LazyFut = Box::pin(async move { h.schedule(policy).await.map_err(|e| format!("{e:?}")) });
                    struct Noop;
                    impl std::task::Wake for Noop {
                        fn wake(self: Arc<Self>) {}
                    }
                    let waker = std::task::Waker::from(Arc::new(Noop));
                    let mut cx = std::task::Context::from_waker(&waker);
                    match fut.as_mut().poll(&mut cx) {
                        std::task::Poll::Ready(r) => finish_call(&hub, idx, r.is_ok(), r.err().unwrap_or_default()),
                        std::task::Poll::Pending => lazy.push((idx, fut)),
                    }
                } else {
                    tasks.push(rt.spawn(async move {
                        let h = get_or_insert(&hub2, &sems2, p, c);
                        let r = h.schedule(policy).await;
                        finish_call(&hub2, idx, r.is_ok(), r.err().map(|e| format!("{e:?}")).unwrap_or_default());
                    }));
                }
            }
            Ev::Inject(i) => fire_injection(i, spec, n, &rt, &hub, &sems, &nodes, &mut injections, &mut tasks, &record_call),
        }
        // burst injections: fire in the same step, before the system quiesces
        let due: Vec<usize> = injections.iter().filter(|(i, d)| !*d && spec.injections[*i].burst && spec.injections[*i].after_events == events as usize).map(|(i, _)| *i).collect();
        for i in due {
            events += 1;
            {
                let mut g = hub.lock().unwrap();
                g.seq = events;
                g.log.push(format!("[{events}] inject #{i} (burst)"));
            }
            decisions.push(format!("inject #{i}"));
            fire_injection(i, spec, n, &rt, &hub, &sems, &nodes, &mut injections, &mut tasks, &record_call);
        }
    }
    // the slow callers come back for their answers
    for (idx, fut) in lazy.drain(..) {
        if let Ok(r) = rt.block_on(async { tokio::time::timeout(Duration::from_millis(5), fut).await }) {
            finish_call(&hub, idx, r.is_ok(), r.err().unwrap_or_default());
        }
    }
    // final state
    let mut panics = vec![];
    for t in tasks.iter_mut() {
        if t.is_finished() {
            if let Err(e) = rt.block_on(t) {
                if e.is_panic() {
                    panics.push(format!("harness call task panicked: {e}"));
                }
            }
        }
    }
    panics.extend(crate::sim::PANIC_LOG.with(|c| c.borrow().clone()));
    let g = hub.lock().unwrap();
    let stalled_machines: Vec<(usize, u64)> = g
        .machines_started
        .iter()
        .filter(|m| !g.machines_stopped.iter().any(|s| (s.0, s.1) == **m))
        .cloned()
        .collect();
    if !stalled_machines.is_empty() && !event_limit {
        stalled = true;
    }
    let permits: Vec<usize> = (0..n).map(permits_of).collect();
    let mut h = 0u64;
    for l in &g.log {
        h = entropy::fnv(h, l.as_bytes());
    }
    let pending_at_end = g.pending.iter().map(|p| format!("{} {}>{} c{}", p.kind, p.from, p.to, p.comp)).collect();
    let out = ServerRun {
        outputs: g.outputs.clone(),
        calls: g.calls.clone(),
        log: g.log.clone(),
        decisions,
        events,
        msgs: g.msgs,
        msgs_by_comp: g.msgs_by_comp.clone(),
        machines_started: g.machines_started.clone(),
        machines_stopped: g.machines_stopped.clone(),
        permits,
        panics,
        stalled,
        stalled_machines,
        event_limit,
        fired: g.fired.clone(),
        log_hash: h,
        max_overlap,
        max_led_active,
        pending_at_end,
    };
    drop(g);
    polytune_server_core::verif::thread::set_spawner(None);
    polytune_http_server::verif::set_machine_observer(None);
    // break the reference cycle hub -> routers -> node state -> HTTP client -> transport -> hub
    hub.lock().unwrap().routers.clear();
    // dropping the runtime drops all remaining tasks
    drop(_guard);
    drop(rt);
    out
}

fn action_name(a: &Action) -> &'static str {
    match a {
        Action::Cancel { .. } => "cancel",
        Action::CancelFromOutput { .. } => "cancel_from_output",
        Action::DupSchedule { .. } => "dup_schedule",
        Action::StrayRun { .. } => "stray_run",
        Action::StrayConsts { .. } => "stray_consts",
        Action::StrayValidate { .. } => "stray_validate",
        Action::StrayMsg { .. } => "stray_msg",
    }
}

#[allow(clippy::too_many_arguments)]
fn fire_injection(
    i: usize,
    spec: &ServerSpec,
    n: usize,
    rt: &tokio::runtime::Runtime,
    hub: &SharedHub,
    sems: &Arc<Vec<Arc<Semaphore>>>,
    nodes: &Arc<Vec<polytune_http_server::verif::Node>>,
    injections: &mut [(usize, bool)],
    tasks: &mut Vec<tokio::task::JoinHandle<()>>,
    record_call: &dyn Fn(&SharedHub, &str, usize, u64) -> usize,
) {
                injections[i].1 = true;
                let action = spec.injections[i].action.clone();
                *hub.lock().unwrap().fired.entry(format!("inject_{}", action_name(&action))).or_insert(0) += 1;
                let (hub2, sems2) = (hub.clone(), sems.clone());
                let policies = spec.policies.clone();
                if spec.http {
                    // the same commands as requests to the node's router; cancel is what a graceful
                    // shutdown of that server does (all its computations)
                    let nodes = nodes.clone();
                    let (what, path, body): (&str, String, Vec<u8>) = match &action {
                        Action::Cancel { .. } | Action::CancelFromOutput { .. } => ("cancel", String::new(), vec![]),
                        Action::DupSchedule { party, comp, template } => {
                            let mut ps = policies.iter().find(|x| x.comp == *comp).unwrap().clone();
                            if let Some(t) = template {
                                ps.template_at = vec![None; n];
                                ps.template_at[*party] = Some(*t);
                            }
                            ("dup-schedule", "/schedule".into(), serde_json::to_vec(&policy_for(&ps, *party, n)).unwrap())
                        }
                        Action::StrayRun { comp, .. } => ("stray-run", "/run".into(), serde_json::to_vec(&RunRequest { computation_id: comp_uuid(*comp) }).unwrap()),
                        Action::StrayConsts { comp, from, .. } => {
                            let mut consts = HashMap::new();
                            consts.insert("Z".to_string(), Literal::from(1u8));
                            ("stray-consts", "/consts".into(), serde_json::to_vec(&ConstsRequest { from: *from, computation_id: comp_uuid(*comp), consts }).unwrap())
                        }
                        Action::StrayValidate { party, comp } => {
                            let ps = policies.iter().find(|x| x.comp == *comp).unwrap();
                            ("stray-validate", "/validate".into(), serde_json::to_vec(&ValidateRequest::from(&policy_for(ps, *party, n))).unwrap())
                        }
                        Action::StrayMsg { comp, from, .. } => ("stray-msg", format!("/msg/{}/{}", comp_uuid(*comp), from), vec![1, 2, 3]),
                    };
                    let (party, comp) = match &action {
                        Action::Cancel { party, comp }
                        | Action::CancelFromOutput { party, comp }
                        | Action::DupSchedule { party, comp, .. }
                        | Action::StrayRun { party, comp }
                        | Action::StrayConsts { party, comp, .. }
                        | Action::StrayValidate { party, comp }
                        | Action::StrayMsg { party, comp, .. } => (*party, *comp),
                    };
                    let idx = record_call(hub, what, party, comp);
                    let is_msg = what == "stray-msg";
                    tasks.push(rt.spawn(async move {
                        if what == "cancel" {
                            if nodes[party].try_live_computations().is_some_and(|ids| !ids.iter().any(|id| comp_of(id) == comp)) {
                                finish_call(&hub2, idx, false, "unknown computation".into());
                            } else {
                                nodes[party].cancel_all().await;
                                finish_call(&hub2, idx, true, String::new());
                            }
                            return;
                        }
                        let router = router_of(&hub2, party).expect("node");
                        hint_created(&hub2, party, comp, &path);
                        let (status, body) = dispatch(router, &path, !is_msg, body).await;
                        finish_call(&hub2, idx, status == 200, if status == 404 { "unknown computation".into() } else { String::from_utf8_lossy(&body).chars().take(300).collect() });
                    }));
                    let _ = sems2;
                    return;
                }
                match action {
                    Action::Cancel { party, comp } => {
                        let idx = record_call(&hub, "cancel", party, comp);
                        tasks.push(rt.spawn(async move {
                            match existing(&hub2, party, comp) {
                                Some(h) => {
                                    let r = h.cancel().await;
                                    finish_call(&hub2, idx, r.is_ok(), r.err().map(|e| format!("{e:?}")).unwrap_or_default());
                                }
                                None => finish_call(&hub2, idx, false, "unknown computation".into()),
                            }
                        }));
                    }
                    Action::CancelFromOutput { party, comp } => {
                        let idx = record_call(hub, "cancel", party, comp);
                        hub.lock().unwrap().cancel_on_output.push((party, comp, idx));
                    }
                    Action::DupSchedule { party, comp, template } => {
                        let idx = record_call(&hub, "dup-schedule", party, comp);
                        let mut ps = policies.iter().find(|x| x.comp == comp).unwrap().clone();
                        if let Some(t) = template {
                            ps.template_at = vec![None; n];
                            ps.template_at[party] = Some(t);
                        }
                        tasks.push(rt.spawn(async move {
                            let h = get_or_insert(&hub2, &sems2, party, comp);
                            let r = h.schedule(policy_for(&ps, party, n)).await;
                            finish_call(&hub2, idx, r.is_ok(), r.err().map(|e| format!("{e:?}")).unwrap_or_default());
                        }));
                    }
                    Action::StrayRun { party, comp } => {
                        let idx = record_call(&hub, "stray-run", party, comp);
                        tasks.push(rt.spawn(async move {
                            match existing(&hub2, party, comp) {
                                Some(h) => {
                                    let r = h.run(RunRequest { computation_id: comp_uuid(comp) }).await;
                                    finish_call(&hub2, idx, r.is_ok(), r.err().map(|e| format!("{e:?}")).unwrap_or_default());
                                }
                                None => finish_call(&hub2, idx, false, "unknown computation".into()),
                            }
                        }));
                    }
                    Action::StrayConsts { party, comp, from } => {
                        let idx = record_call(&hub, "stray-consts", party, comp);
                        tasks.push(rt.spawn(async move {
                            match existing(&hub2, party, comp) {
                                Some(h) => {
                                    let mut consts = HashMap::new();
                                    consts.insert("Z".to_string(), Literal::from(1u8));
                                    let r = h.consts(ConstsRequest { from, computation_id: comp_uuid(comp), consts }).await;
                                    finish_call(&hub2, idx, r.is_ok(), r.err().map(|e| format!("{e:?}")).unwrap_or_default());
                                }
                                None => finish_call(&hub2, idx, false, "unknown computation".into()),
                            }
                        }));
                    }
                    Action::StrayValidate { party, comp } => {
                        let idx = record_call(&hub, "stray-validate", party, comp);
                        let ps = policies.iter().find(|x| x.comp == comp).unwrap().clone();
                        tasks.push(rt.spawn(async move {
                            let h = get_or_insert(&hub2, &sems2, party, comp);
                            let pol = policy_for(&ps, party, n);
                            let r = h.validate(ValidateRequest::from(&pol)).await;
                            finish_call(&hub2, idx, r.is_ok(), r.err().map(|e| format!("{e:?}")).unwrap_or_default());
                        }));
                    }
                    Action::StrayMsg { party, comp, from } => {
                        let idx = record_call(&hub, "stray-msg", party, comp);
                        tasks.push(rt.spawn(async move {
                            match existing(&hub2, party, comp) {
                                Some(h) => {
                                    let r = h.mpc_msg(MpcMsg { from, data: vec![1, 2, 3] }).await;
                                    finish_call(&hub2, idx, r.is_ok(), r.err().map(|e| format!("{e:?}")).unwrap_or_default());
                                }
                                None => finish_call(&hub2, idx, false, "unknown computation".into()),
                            }
                        }));
                    }
                }
}

fn finish_call(hub: &SharedHub, idx: usize, ok: bool, detail: String) {
    let mut g = hub.lock().unwrap();
    let seq = g.seq;
    let what = g.calls[idx].what.clone();
    let (p, c) = (g.calls[idx].party, g.calls[idx].comp);
    g.calls[idx].done_seq = Some(seq);
    g.calls[idx].done_ord = Some(g.log.len() as u64 + 1);
    g.calls[idx].ok = Some(ok);
    g.calls[idx].detail = detail.clone();
    g.log.push(format!("{what} p{p}/c{c} -> {}", if ok { "Ok".to_string() } else { format!("Err({})", detail.chars().take(80).collect::<String>()) }));
}

/// memory probe: build one HTTP node and drop it
pub fn node_probe() {
    let hub: SharedHub = Arc::new(Mutex::new(Hub::default()));
    let node = polytune_http_server::verif::Node::new(Arc::new(SimTransport { me: 0, hub }), 1, None);
    drop(node);
}
