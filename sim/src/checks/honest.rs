//! C01 (honest execution computes the circuit, all roles / sizes / storage choices) and
//! C12 (result independent of scheduling, no deadlock on 1-slot channels, one outstanding
//! send / receive per peer).
use crate::circ::{self, CircSpec, GenParams};
use crate::entropy;
use crate::framework::{CaseCx, CaseOut, Check, Tier, Violation};
use crate::mpcrun::{self, MpcRun, MpcSpec};
use crate::sim::{SchedSpec, Strategy};
use rand::Rng;
use rand::seq::SliceRandom;
use rand_chacha::ChaCha8Rng;
use serde_json::{Value, json};

pub fn gen_strategy(rng: &mut ChaCha8Rng, n: usize) -> Strategy {
    match rng.random_range(0..9) {
        0 | 1 => Strategy::Uniform,
        2 => Strategy::Weighted((0..n).map(|_| [1u32, 1, 4, 16, 64][rng.random_range(0..5)]).collect()),
        3 => Strategy::Pct {
            d: rng.random_range(1..5),
            horizon: 2000,
        },
        4 => Strategy::RunToBlock,
        5 => Strategy::EagerDelivery,
        6 => Strategy::LazyDelivery,
        7 => Strategy::Stall(rng.random_range(0..n)),
        _ => Strategy::Fifo,
    }
}

pub struct HonestParams {
    pub n_max: usize,
    pub ands: usize,
    pub others: usize,
    pub caps: &'static [usize],
}

pub fn gen_honest(rng: &mut ChaCha8Rng, n: usize, ands: usize, others: usize, caps: &[usize]) -> MpcSpec {
    let g = GenParams {
        n,
        ands,
        others,
        max_inputs_per_party: if ands > 200 { 2 } else { 3 },
        allow_zero_input_party: true,
        reuse: rng.random_bool(0.6),
        outs: rng.random_range(1..4),
    };
    let c = circ::gen_circuit(rng, &g);
    let inputs = circ::gen_inputs(rng, &c);
    let p_eval = rng.random_range(0..n);
    // non-empty subset of parties, in random order
    let mut all: Vec<usize> = (0..n).collect();
    all.shuffle(rng);
    let k = match rng.random_range(0..4) {
        0 => 1,
        1 => n,
        _ => rng.random_range(1..=n),
    };
    let mut p_out: Vec<usize> = all[..k].to_vec();
    if rng.random_bool(0.7) {
        p_out.sort();
    }
    let tmp_mode = rng.random_range(0..4);
    let tmp: Vec<bool> = (0..n)
        .map(|_| match tmp_mode {
            0 => false,
            1 => true,
            _ => rng.random(),
        })
        .collect();
    MpcSpec {
        circ: CircSpec::from_circuit(&c),
        inputs: inputs.iter().map(|b| circ::bits_to_string(b)).collect(),
        p_eval,
        p_out,
        tmp,
        cap: caps[rng.random_range(0..caps.len())],
        seed: rng.random(),
        sched: SchedSpec {
            strategy: gen_strategy(rng, n),
            seed: rng.random(),
            explicit: vec![],
        },
        faults: vec![],
        taps: vec![],
        adversary: None,
        crash: None,
        send_to_closed_errs: true,
        overrides: vec![],
    }
}

/// Oracle for an all-honest run. `id` selects which aspects are reported under which class.
pub fn honest_oracle(spec: &MpcSpec, run: &MpcRun, check_monitor: bool) -> Vec<Violation> {
    let mut out = vec![];
    let sv = serde_json::to_value(spec).unwrap();
    let expected = spec.expected();
    let mk = |class: &str, key: &str, detail: String| Violation {
        class: class.into(),
        detail,
        key: key.into(),
        spec: sv.clone(),
    };
    if let Some(d) = &run.res.deadlock {
        out.push(mk("deadlock", "deadlock", format!("no enabled event with unfinished parties: {d}")));
        return out;
    }
    if run.res.step_limit {
        out.push(mk("step-limit", "step-limit", "run did not finish within the step bound".into()));
        return out;
    }
    for (p, e) in run.res.ends.iter().enumerate() {
        match e.bits() {
            Some(bits) => {
                let want: &[bool] = if spec.p_out.contains(&p) { &expected } else { &[] };
                if bits != want {
                    out.push(mk(
                        "wrong-output",
                        "wrong-output",
                        format!(
                            "party {p} returned {} but the clear-text value is {} (p_eval={}, p_out={:?})",
                            circ::bits_to_string(bits),
                            circ::bits_to_string(want),
                            spec.p_eval,
                            spec.p_out
                        ),
                    ));
                }
            }
            None => {
                out.push(mk(
                    "honest-run-failed",
                    &format!("honest-run-failed:{}", e.kind()),
                    format!("party {p} ended with {} in an all-honest run", e.summary()),
                ));
            }
        }
    }
    if check_monitor && !run.res.monitor.is_empty() {
        out.push(mk("two-outstanding-ops", "two-outstanding-ops", run.res.monitor[0].clone()));
    }
    if !run.leftovers.is_empty() {
        out.push(mk("tmp-file-left", "tmp-file-left", format!("{:?}", run.leftovers)));
    }
    out
}

pub fn shrink_mpc(spec: &MpcSpec) -> Vec<MpcSpec> {
    let mut out = vec![];
    for i in 0..spec.faults.len() {
        let mut s = spec.clone();
        s.faults.remove(i);
        out.push(s);
    }
    if spec.sched.strategy != Strategy::Fifo || !spec.sched.explicit.is_empty() {
        let mut s = spec.clone();
        s.sched.strategy = Strategy::Fifo;
        s.sched.explicit.clear();
        out.push(s);
    }
    if spec.cap != 0 {
        let mut s = spec.clone();
        s.cap = 0;
        out.push(s);
    }
    if spec.tmp.iter().any(|t| *t) {
        let mut s = spec.clone();
        s.tmp = vec![false; s.tmp.len()];
        out.push(s);
    }
    if spec.inputs.iter().any(|i| i.contains('1')) {
        let mut s = spec.clone();
        s.inputs = s.inputs.iter().map(|i| "0".repeat(i.len())).collect();
        out.push(s);
    }
    if spec.p_out.len() > 1 {
        for i in 0..spec.p_out.len() {
            let mut s = spec.clone();
            s.p_out.remove(i);
            out.push(s);
        }
    }
    // circuit: drop an output, drop a gate (keep only if still valid)
    if spec.circ.outs.len() > 1 {
        for i in 0..spec.circ.outs.len() {
            let mut s = spec.clone();
            s.circ.outs.remove(i);
            out.push(s);
        }
    }
    let num_inputs: usize = spec.circ.inputs.iter().sum();
    let gates = spec.circ.insts.len() - num_inputs;
    let mut tries: Vec<usize> = (num_inputs..spec.circ.insts.len()).rev().collect();
    if gates > 24 {
        // large circuits: try halving first, then a few single removals
        let mut s = spec.clone();
        s.circ.insts.truncate(num_inputs + gates / 2);
        tries.truncate(8);
        fix_and_push(&mut out, s);
    }
    for j in tries {
        let mut s = spec.clone();
        s.circ.insts.remove(j);
        fix_and_push(&mut out, s);
    }
    out
}

fn fix_and_push(out: &mut Vec<MpcSpec>, mut s: MpcSpec) {
    s.circ.and_ops = s.circ.insts.iter().filter(|i| i.starts_with('a')).count();
    if s.circ.to_circuit().validate().is_ok() {
        out.push(s);
    }
}

fn and_count(rng: &mut ChaCha8Rng, tier: Tier, k: usize) -> usize {
    // a fixed share of runs sits on both sides of the 1000-gate batch boundary
    let big: &[usize] = match tier {
        Tier::Quick => &[999, 1000, 1001, 2001],
        Tier::Thorough => &[999, 1000, 1001, 1002, 2000, 2001, 3001, 9001, 27900],
    };
    let every = match tier {
        Tier::Quick => 10,
        Tier::Thorough => 40,
    };
    if k % every == every - 1 {
        big[(k / every) % big.len()]
    } else {
        match rng.random_range(0..10) {
            0 => 0,
            1 => 1,
            _ => rng.random_range(0..40),
        }
    }
}

pub struct C01;
pub struct C12;

const BATCH: usize = 8;

fn run_batch(id: &str, case: &Value, cx: &CaseCx, tier: Tier) -> CaseOut {
    let seed = case["seed"].as_u64().unwrap();
    let k0 = case["k"].as_u64().unwrap() as usize;
    let mut out = CaseOut::default();
    for j in 0..BATCH {
        let k = k0 * BATCH + j;
        let mut rng = entropy::rng(seed, if id == "C01" { 0xc01 } else { 0xc12 }, k as u64);
        let spec = if id == "C01" {
            let n = [2, 2, 2, 3, 3, 4, 5][rng.random_range(0..7)];
            let ands = and_count(&mut rng, tier, k);
            let n = if ands > 20000 { 2 } else if ands > 1500 { n.min(3) } else { n };
            let others = if ands > 500 { rng.random_range(0..50) } else { rng.random_range(0..30) };
            gen_honest(&mut rng, n, ands, others, &[0, 0, 1, 2, 8])
        } else {
            let n = [2, 2, 3, 3, 4][rng.random_range(0..5)];
            // several gate chunks in a share of the runs
            let ands = if k % 12 == 11 { [1001, 2001][(k / 12) % 2] } else { rng.random_range(0..24) };
            let n = if ands > 1000 { n.min(3) } else { n };
            let others = rng.random_range(0..16);
            gen_honest(&mut rng, n, ands, others, &[1, 1, 2, 0])
        };
        let sv = serde_json::to_value(&spec).unwrap();
        cx.begin(&sv);
        let run = mpcrun::run(&spec, None);
        out.evals += 1;
        out.sim_steps += run.res.steps;
        out.count("polls", run.res.polls);
        out.count("deliveries", run.res.deliveries);
        out.count("messages", run.res.transcript.len() as u64);
        out.count(&format!("n={}", spec.n()), 1);
        out.count(&format!("cap={}", spec.cap), 1);
        out.count(&format!("strategy={}", strategy_name(&spec.sched.strategy)), 1);
        if spec.circ.and_ops > 1000 {
            out.count("multi_batch_runs", 1);
        }
        if spec.circ.and_ops == 0 {
            out.count("zero_and_runs", 1);
        }
        if !spec.p_out.contains(&spec.p_eval) {
            out.count("evaluator_outside_p_out", 1);
        }
        if spec.p_eval != 0 {
            out.count("p_eval_nonzero", 1);
        }
        if spec.tmp.iter().any(|t| *t) && spec.tmp.iter().any(|t| !*t) {
            out.count("mixed_tmp_dir", 1);
        }
        // distinct by (configuration, schedule) for C12; by configuration for C01
        let cfg_hash = entropy::fnv(0, serde_json::to_string(&spec.circ).unwrap().as_bytes())
            ^ entropy::mix(spec.p_eval as u64, spec.cap as u64, spec.p_out.len() as u64);
        out.distinct.push(if id == "C01" { cfg_hash } else { cfg_hash ^ run.res.sched_hash });
        if id == "C12" {
            out.carry.push(json!({"sh": run.res.sched_hash, "ph": run.res.progress_hash}));
        }
        if out.samples.len() < 2 {
            let mut s = spec.sample();
            s["result"] = json!(run.res.ends.iter().map(|e| e.summary()).collect::<Vec<_>>());
            s["steps"] = json!(run.res.steps);
            out.samples.push(s);
        }
        out.violations.extend(honest_oracle(&spec, &run, id == "C12"));
    }
    out
}

pub fn strategy_name(s: &Strategy) -> &'static str {
    match s {
        Strategy::Uniform => "uniform",
        Strategy::Weighted(_) => "weighted",
        Strategy::Pct { .. } => "pct",
        Strategy::RunToBlock => "run_to_block",
        Strategy::EagerDelivery => "eager_delivery",
        Strategy::LazyDelivery => "lazy_delivery",
        Strategy::Stall(_) => "stall_one",
        Strategy::Fifo => "fifo",
    }
}

fn replay_honest(spec: &Value, monitor: bool) -> Vec<Violation> {
    let Ok(spec) = serde_json::from_value::<MpcSpec>(spec.clone()) else {
        return vec![];
    };
    let run = mpcrun::run(&spec, None);
    honest_oracle(&spec, &run, monitor)
}

fn shrink_honest(spec: &Value) -> Vec<Value> {
    let Ok(spec) = serde_json::from_value::<MpcSpec>(spec.clone()) else {
        return vec![];
    };
    shrink_mpc(&spec)
        .into_iter()
        .map(|s| serde_json::to_value(s).unwrap())
        .collect()
}

impl Check for C01 {
    fn id(&self) -> &'static str {
        "C01"
    }
    fn level(&self) -> &'static str {
        "exploration"
    }
    fn rule(&self) -> String {
        "each evaluation is one complete simulated all-honest mpc execution of a freshly generated valid register circuit (inputs first in permuted party order, register reuse, NOT chains, x AND x, x XOR x, outputs that are inputs, duplicated outputs, zero-input parties, 0 AND gates, and a fixed share of runs at 999/1000/1001/2001(/9001) AND gates) with random inputs, n in 2..5, random evaluator, random non-empty output set, random per-party tmp_dir choice, random link capacity and random schedule; non-trivial = every run (all run the full protocol); distinct = distinct (circuit, evaluator, capacity, |p_out|) hash".into()
    }
    fn assumptions(&self) -> Vec<String> {
        vec![
            "reliable per-pair FIFO links (the premise of the property)".into(),
            "the harness's clear-text evaluator is the specification of the circuit semantics".into(),
            "sampled, not exhaustive: a clean batch is evidence, not proof".into(),
        ]
    }
    fn cases(&self, tier: Tier, seed: u64) -> Vec<Value> {
        let k = match tier {
            Tier::Quick => 50,
            Tier::Thorough => 3000,
        };
        (0..k).map(|k| json!({"seed": seed, "k": k, "tier": tier.name()})).collect()
    }
    fn run_case(&self, case: &Value, cx: &CaseCx) -> CaseOut {
        let tier = Tier::parse(case["tier"].as_str().unwrap_or("quick")).unwrap_or(Tier::Quick);
        run_batch("C01", case, cx, tier)
    }
    fn replay(&self, spec: &Value) -> Vec<Violation> {
        replay_honest(spec, false)
    }
    fn shrink(&self, spec: &Value) -> Vec<Value> {
        shrink_honest(spec)
    }
}

impl Check for C12 {
    fn id(&self) -> &'static str {
        "C12"
    }
    fn level(&self) -> &'static str {
        "exploration"
    }
    fn rule(&self) -> String {
        "each evaluation is one complete simulated all-honest mpc execution under a seeded scheduler that decides every task poll and every message delivery (strategies: uniform, weighted party speeds, PCT priorities with change points, run-to-block, eager / lazy delivery, one party stalled until nothing else can move, FIFO) over links of capacity 1, 2 or unbounded, n in 2..4, every evaluator; deadlock detection is exact (all leaf futures are the simulator's); distinct = distinct (configuration, decision-sequence) hash".into()
    }
    fn assumptions(&self) -> Vec<String> {
        vec![
            "links preserve per-pair FIFO order and buffer at least one message".into(),
            "interleavings are sampled by seeded search, not enumerated".into(),
        ]
    }
    fn cases(&self, tier: Tier, seed: u64) -> Vec<Value> {
        let k = match tier {
            Tier::Quick => 125,
            Tier::Thorough => 12500,
        };
        (0..k).map(|k| json!({"seed": seed, "k": k, "tier": tier.name()})).collect()
    }
    fn run_case(&self, case: &Value, cx: &CaseCx) -> CaseOut {
        run_batch("C12", case, cx, Tier::Quick)
    }
    fn replay(&self, spec: &Value) -> Vec<Violation> {
        replay_honest(spec, true)
    }
    fn shrink(&self, spec: &Value) -> Vec<Value> {
        shrink_honest(spec)
    }
    fn finish(&self, carries: &[Value], _tier: Tier) -> (Vec<Violation>, std::collections::BTreeMap<String, Value>) {
        let mut sh = std::collections::BTreeSet::new();
        let mut ph = std::collections::BTreeSet::new();
        for c in carries {
            sh.insert(c["sh"].as_u64().unwrap_or(0));
            ph.insert(c["ph"].as_u64().unwrap_or(0));
        }
        let mut m = std::collections::BTreeMap::new();
        m.insert("distinct_schedules".to_string(), json!(sh.len()));
        m.insert("distinct_progress_histories".to_string(), json!(ph.len()));
        (vec![], m)
    }
}
