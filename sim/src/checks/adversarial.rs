//! Shared machinery for the fault-enumeration checks (C02, C03, C04, C07, C08): attack
//! configurations, site enumeration over the corrupted party's outgoing messages, sub-run driver.
use crate::circ::{self, CircSpec, GenParams};
use crate::entropy;
use crate::framework::Violation;
use crate::mpcrun::{self, AdvMode, MpcRun, MpcSpec};
use crate::sim::{End, Fault, FaultKind, Reference, SchedSpec, Sel, Strategy, TapSpec};
use rand::Rng;
use serde::{Deserialize, Serialize};
use serde_json::Value;
use std::sync::Arc;

#[derive(Clone, Debug, Serialize, Deserialize)]
pub struct AttackCfg {
    /// honest base configuration (no faults)
    pub base: MpcSpec,
    /// the corrupted party
    pub c: usize,
}

/// Configuration generator for attacks: every party has input bits, outputs are non-affine in the
/// corrupted party's inputs (they pass through AND gates), all parties are output parties unless
/// stated otherwise, schedule and coins seeded.
pub fn gen_attack_cfg(seed: u64, k: u64, n: usize, c_is_eval: bool, ands: usize) -> AttackCfg {
    let mut rng = entropy::rng(seed, 0xa77ac, k);
    let g = GenParams {
        n,
        ands,
        others: rng.random_range(2..6),
        max_inputs_per_party: 2,
        allow_zero_input_party: false,
        reuse: rng.random_bool(0.5),
        outs: rng.random_range(1..3),
    };
    // regenerate until the output depends on an AND gate and on every party (keeps faults relevant)
    let mut c;
    let mut tries = 0;
    loop {
        c = circ::gen_circuit(&mut rng, &g);
        tries += 1;
        if tries > 50 || output_is_interesting(&c) {
            break;
        }
    }
    let inputs = circ::gen_inputs(&mut rng, &c);
    let p_eval = rng.random_range(0..n);
    let corrupted = if c_is_eval {
        p_eval
    } else {
        let others: Vec<usize> = (0..n).filter(|p| *p != p_eval).collect();
        others[rng.random_range(0..others.len())]
    };
    let base = MpcSpec {
        circ: CircSpec::from_circuit(&c),
        inputs: inputs.iter().map(|b| circ::bits_to_string(b)).collect(),
        p_eval,
        p_out: (0..n).collect(),
        tmp: vec![false; n],
        cap: 0,
        seed: rng.random(),
        sched: SchedSpec {
            strategy: if rng.random_bool(0.5) { Strategy::Uniform } else { Strategy::EagerDelivery },
            seed: rng.random(),
            explicit: vec![],
        },
        faults: vec![],
        taps: vec![],
        adversary: None,
        crash: None,
        send_to_closed_errs: true,
        overrides: vec![],
    };
    AttackCfg { base, c: corrupted }
}

/// n = 3; the AND gates combine inputs of the two honest parties only, and two of the three outputs do
/// not depend on the corrupted party at all: no substitution of the corrupted input explains a change
/// of those outputs, so every unnoticed tampering with a gate or a triple shows.
pub fn honest_and_cfg(seed: u64, k: u64, c_is_eval: bool) -> AttackCfg {
    let mut rng = entropy::rng(seed, 0xa77ad, k);
    let n = 3;
    let p_eval = rng.random_range(0..n);
    let corrupted = if c_is_eval {
        p_eval
    } else {
        let others: Vec<usize> = (0..n).filter(|p| *p != p_eval).collect();
        others[rng.random_range(0..others.len())]
    };
    let hs: Vec<usize> = (0..n).filter(|p| *p != corrupted).collect();
    let (h1, h2) = (hs[0], hs[1]);
    let mut insts: Vec<String> = vec![];
    for p in 0..n {
        for b in 0..2 {
            insts.push(format!("i{p}.{b}>{}", 2 * p + b));
        }
    }
    insts.push(format!("a{},{}>6", 2 * h1, 2 * h2));
    insts.push(format!("a{},{}>7", 2 * h1 + 1, 2 * h2 + 1));
    insts.push(format!("a{},{}>8", 2 * h1, 2 * h2 + 1));
    insts.push(format!("a{},{}>9", 2 * h1 + 1, 2 * h2));
    insts.push(format!("x8,{}>10", 2 * corrupted));
    insts.push("n9>11".to_string());
    let circ = CircSpec { inputs: vec![2; n], insts, outs: vec![6, 7, 10, 11], max_reg: 12, and_ops: 4 };
    let inputs: Vec<String> = (0..n).map(|_| circ::bits_to_string(&[rng.random(), rng.random()])).collect();
    let base = MpcSpec {
        circ,
        inputs,
        p_eval,
        p_out: (0..n).collect(),
        tmp: vec![false; n],
        cap: 0,
        seed: rng.random(),
        sched: SchedSpec {
            strategy: if rng.random_bool(0.5) { Strategy::Uniform } else { Strategy::EagerDelivery },
            seed: rng.random(),
            explicit: vec![],
        },
        faults: vec![],
        taps: vec![],
        adversary: None,
        crash: None,
        send_to_closed_errs: true,
        overrides: vec![],
    };
    AttackCfg { base, c: corrupted }
}

fn output_is_interesting(c: &polytune::garble_lang::register_circuit::Circuit) -> bool {
    // the truth table over all inputs is neither constant nor affine in any single party's bits:
    // approximated by "some output differs between two inputs and the circuit has an AND on the
    // path" - checked semantically: exists inputs x, and bits i, j with f(x)^f(x^i)^f(x^j)^f(x^i^j) != 0
    let total: usize = c.input_regs.iter().sum();
    if total > 10 || total < 2 {
        return true;
    }
    let split = |x: u32| -> Vec<Vec<bool>> {
        let mut out = vec![];
        let mut b = 0;
        for k in &c.input_regs {
            out.push((0..*k).map(|i| x >> (b + i) & 1 == 1).collect());
            b += k;
        }
        out
    };
    let f = |x: u32| circ::eval_clear(c, &split(x));
    for x in 0..(1u32 << total) {
        for i in 0..total {
            for j in (i + 1)..total {
                let (a, b, cc, d) = (f(x), f(x ^ (1 << i)), f(x ^ (1 << j)), f(x ^ (1 << i) ^ (1 << j)));
                if (0..a.len()).any(|o| a[o] ^ b[o] ^ cc[o] ^ d[o]) {
                    return true;
                }
            }
        }
    }
    false
}

#[derive(Clone, Debug)]
pub struct Site {
    pub to: usize,
    pub idx: usize,
    pub phase: String,
    pub tr: usize,
}

/// All messages the corrupted party sends in the reference run.
pub fn sites(reference: &Reference, c: usize) -> Vec<Site> {
    reference
        .transcript
        .iter()
        .enumerate()
        .filter(|(_, m)| m.from == c)
        .map(|(i, m)| Site {
            to: m.to,
            idx: m.idx,
            phase: m.phase.clone(),
            tr: i,
        })
        .collect()
}

pub fn fault_at(c: usize, s: &Site, kind: FaultKind) -> Fault {
    Fault {
        sel: Sel {
            from: c,
            to: s.to,
            idx: Some(s.idx),
            phase: None,
            occ: None,
        },
        kind,
    }
}

/// Build the attacked spec. In both modes the recorded schedule of the reference run is replayed
/// as far as it is applicable, so the run is identical to the reference up to the fault.
pub fn attacked_spec(
    cfg: &AttackCfg,
    mode: AdvMode,
    faults: Vec<Fault>,
    taps: Vec<TapSpec>,
    crash: Option<(usize, usize)>,
    ref_decisions: &[String],
) -> MpcSpec {
    let mut s = cfg.base.clone();
    s.faults = faults;
    s.taps = taps;
    s.crash = crash;
    s.adversary = Some((cfg.c, mode.clone()));
    if mode == AdvMode::Live {
        s.sched.explicit = ref_decisions.to_vec();
    }
    s
}

pub struct RefRun {
    pub run: Arc<Reference>,
    pub decisions: Vec<String>,
    pub ends: Vec<String>,
    pub steps: u64,
    pub alloc: Vec<(usize, usize)>,
    pub probes: Vec<Vec<crate::sim::ProbeRec>>,
    pub ok: bool,
}

pub fn reference(cfg: &AttackCfg) -> RefRun {
    let r = mpcrun::reference_run(&cfg.base);
    let ok = r.res.ends.iter().all(|e| e.bits().is_some());
    let ends = r.res.ends.iter().map(|e| e.summary()).collect();
    let decisions = r.res.decisions.clone();
    let steps = r.res.steps;
    let alloc = r.res.alloc.clone();
    let probes = r.res.probes.clone();
    RefRun {
        run: r.res.reference(),
        decisions,
        ends,
        steps,
        alloc,
        probes,
        ok,
    }
}

pub fn run_attack(spec: &MpcSpec, reference: Option<Arc<Reference>>) -> MpcRun {
    mpcrun::run(spec, reference)
}

/// True when a fault fired and actually changed what was delivered.
pub fn fault_effective(run: &MpcRun) -> bool {
    run.res.transcript.iter().any(|m| match &m.orig {
        Some(o) => *o != m.data,
        None => false,
    }) || run.res.fired.keys().any(|k| k == "drop" || k == "duplicate" || k == "swap_next" || k == "crash")
}

pub fn honest_parties(spec: &MpcSpec) -> Vec<usize> {
    let c = spec.adversary.as_ref().map(|a| a.0);
    (0..spec.n()).filter(|p| Some(*p) != c).collect()
}

pub fn panic_key(msg: &str) -> String {
    // "<message> at <file>:<line>" -> "<file>:<message class>"
    let (m, loc) = msg.rsplit_once(" at ").unwrap_or((msg, ""));
    let file = loc.rsplit_once(':').map(|x| x.0).unwrap_or(loc);
    let file = file.trim_start_matches("/repo/");
    let class = if m.contains("index out of bounds") {
        "index out of bounds"
    } else if m.contains("out of range for slice") || m.contains("range end index") || m.contains("range start index") {
        "slice range"
    } else if m.contains("decryption failed") {
        "decryption failed"
    } else if m.contains("capacity overflow") {
        "capacity overflow"
    } else if m.contains("called `Option::unwrap()`") {
        "unwrap on None"
    } else if m.contains("called `Result::unwrap()`") {
        "unwrap on Err"
    } else {
        m.split(':').next().unwrap_or(m)
    };
    format!("{file}:{class}")
}

pub fn mk_violation(class: &str, key: String, detail: String, spec: &MpcSpec) -> Violation {
    Violation {
        class: class.into(),
        detail,
        key,
        spec: serde_json::to_value(spec).unwrap(),
    }
}

pub fn describe_fault(spec: &MpcSpec) -> String {
    let mut parts = vec![];
    for f in &spec.faults {
        parts.push(format!("{:?} on message #{:?} {}->{}", f.kind, f.sel.idx, f.sel.from, f.sel.to));
    }
    for t in &spec.taps {
        parts.push(format!("tap {} idx={:?} at party {}", t.site, t.idx, t.party));
    }
    if let Some((p, k)) = spec.crash {
        parts.push(format!("party {p} vanishes after its message #{k}"));
    }
    parts.join("; ")
}

pub fn phase_of_fault(run: &MpcRun) -> String {
    run.res
        .transcript
        .iter()
        .find(|m| m.orig.is_some())
        .map(|m| m.phase.clone())
        .unwrap_or_default()
}

pub fn parse_spec(v: &Value) -> Option<MpcSpec> {
    serde_json::from_value::<MpcSpec>(v.clone()).ok()
}

pub fn end_is_panic(e: &End) -> Option<&String> {
    match e {
        End::Panic(m) => Some(m),
        _ => None,
    }
}

/// Swarm-style multi-fault attacks: `count` specs, each with 2..4 structure-aware edits of the
/// corrupted party's messages (same message, same phase towards several recipients, or an
/// earlier and a later message to one recipient), scripted adversary.
pub fn random_multi_faults(cfg: &AttackCfg, r: &RefRun, seed: u64, count: usize) -> Vec<MpcSpec> {
    use crate::mutate::{self, MutSpec};
    let mut rng = entropy::rng(seed, 0x5a4a, cfg.base.seed);
    let ss = sites(&r.run, cfg.c);
    if ss.is_empty() {
        return vec![];
    }
    let mut out = vec![];
    for _ in 0..count {
        let k = rng.random_range(2..=4);
        let anchor = rng.random_range(0..ss.len());
        let mode = rng.random_range(0..3);
        let mut faults: Vec<Fault> = vec![];
        let mut used: Vec<usize> = vec![];
        for _ in 0..k {
            let si = match mode {
                // several edits in one message
                0 => anchor,
                // the same phase towards every recipient
                1 => {
                    let cands: Vec<usize> = (0..ss.len()).filter(|i| ss[*i].phase == ss[anchor].phase).collect();
                    cands[rng.random_range(0..cands.len())]
                }
                // an earlier and later messages to the same recipient
                _ => {
                    let cands: Vec<usize> = (0..ss.len()).filter(|i| ss[*i].to == ss[anchor].to && *i >= anchor).collect();
                    cands[rng.random_range(0..cands.len())]
                }
            };
            let m = &r.run.transcript[ss[si].tr];
            let cat: Vec<MutSpec> = mutate::catalogue(&ss[si].phase, &m.data, &mut rng, false)
                .into_iter()
                .filter(|x| matches!(x, MutSpec::At { .. }))
                .collect();
            if cat.is_empty() {
                continue;
            }
            let mu = cat[rng.random_range(0..cat.len())].clone();
            if mode == 0 || !used.contains(&si) {
                if let (Some(f), true) = (faults.iter_mut().find(|f| f.sel.to == ss[si].to && f.sel.idx == Some(ss[si].idx)), true) {
                    // merge into one multi-edit of that message
                    if let (FaultKind::Mutate(old), MutSpec::At { path, op }) = (&f.kind, &mu) {
                        let mut edits = match old {
                            MutSpec::At { path: p0, op: o0 } => vec![(p0.clone(), o0.clone())],
                            MutSpec::Multi(e) => e.clone(),
                            _ => vec![],
                        };
                        edits.push((path.clone(), op.clone()));
                        f.kind = FaultKind::Mutate(MutSpec::Multi(edits));
                    }
                } else {
                    faults.push(fault_at(cfg.c, &ss[si], FaultKind::Mutate(mu)));
                }
                used.push(si);
            }
        }
        if !faults.is_empty() {
            out.push(attacked_spec(cfg, AdvMode::Scripted, faults, vec![], None, &r.decisions));
        }
    }
    out
}

const ERR_VARIANTS: &[&str] = &[
    "KOSConsistencyCheckFailed", "ABitWrongMAC", "AShareWrongMAC", "CommitmentCouldNotBeOpened", "LaANDXorNotZero", "AANDWrongMAC",
    "BeaverWrongMAC", "InconsistentBroadcast", "InvalidBitValue", "InvalidLength", "EmptyVector", "EmptyMsg", "ConversionErr",
    "InvalidInputMacForInst", "InvalidOutputMac", "InvalidOutputLabel", "ConflictingInputMask", "MissingOutputShareForOutReg",
    "InputWithoutValue", "InputWithoutLabel", "MissingGarbledGate", "DecryptionFailed", "MissingSharesForInput", "InstWithoutInput",
    "SerdeError", "RecvError", "SendError", "PartyDoesNotExist", "WrongInputSize", "InvalidOutputParty",
];

/// Which error variant an honest party returned (reach measure: every verification step that fired).
pub fn err_variant(e: &str) -> &'static str {
    // the most specific one: prefer protocol errors over channel wrappers
    for v in ERR_VARIANTS {
        if e.contains(v) && *v != "RecvError" && *v != "SendError" && *v != "SerdeError" {
            return v;
        }
    }
    for v in ["SerdeError", "RecvError", "SendError"] {
        if e.contains(v) {
            return v;
        }
    }
    "other"
}

pub fn count_honest_errs(out: &mut crate::framework::CaseOut, spec: &MpcSpec, run: &MpcRun) {
    for h in honest_parties(spec) {
        if let End::Err(e) = &run.res.ends[h] {
            out.count(&format!("honest_err:{}", err_variant(e)), 1);
        }
    }
}
