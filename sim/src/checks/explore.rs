//! C05 (only output parties obtain the result), C09 (input-independent communication pattern),
//! C18 (invalid arguments rejected up front), C19 (spilling is observationally identical).
use crate::checks::honest::{gen_honest, gen_strategy, honest_oracle, shrink_mpc};
use crate::circ::{self, CircSpec};
use crate::entropy;
use crate::framework::{CaseCx, CaseOut, Check, Tier, Violation};
use crate::mpcrun::{self, ArgOverride, MpcRun, MpcSpec};
use crate::schema::{self, V};
use crate::sim::{SchedSpec, SimChannel, Strategy, Task, TaskOut};
use rand::Rng;
use rand::seq::SliceRandom;
use serde_json::{Value, json};
use std::collections::{BTreeMap, BTreeSet};
use std::future::Future;
use std::pin::Pin;
use std::sync::Arc;

fn viol(class: &str, key: &str, detail: String, spec: &Value) -> Violation {
    Violation {
        class: class.into(),
        detail,
        key: key.into(),
        spec: spec.clone(),
    }
}

fn generic_shrink(spec: &Value) -> Vec<Value> {
    let Ok(s) = serde_json::from_value::<MpcSpec>(spec.clone()) else {
        return vec![];
    };
    shrink_mpc(&s).into_iter().map(|s| serde_json::to_value(s).unwrap()).collect()
}

// ---------------------------------------------------------------------------------------------
// C05

pub struct C05;

/// Transcript oracle of C05 over one honest run.
pub fn c05_oracle(spec: &MpcSpec, run: &MpcRun) -> Vec<Violation> {
    let sv = serde_json::to_value(spec).unwrap();
    let mut out = honest_oracle(spec, run, false);
    if !out.is_empty() {
        return out;
    }
    let n = spec.n();
    let tr = &run.res.transcript;
    // t_s: the event at which s finished input processing
    let mut t_done = vec![u64::MAX; n];
    for s in 0..n {
        if s == spec.p_eval {
            let mut last = 0;
            let mut cnt = 0;
            for r in &run.res.recvs {
                if r.party == s && tr[r.tr].phase == "labels" {
                    last = last.max(r.seq);
                    cnt += 1;
                }
            }
            if cnt == n - 1 {
                t_done[s] = last;
            }
        } else if let Some(m) = tr.iter().find(|m| m.from == s && m.phase == "labels") {
            t_done[s] = m.seq;
        }
    }
    let uniq_outs: BTreeSet<u32> = spec.circ.outs.iter().copied().collect();
    for m in tr {
        let to_outsider = !spec.p_out.contains(&m.to);
        if to_outsider && (m.phase == "output wire shares" || m.phase == "lambda") {
            out.push(viol(
                "output-data-to-non-output-party",
                "output-data-to-non-output-party",
                format!("party {} sent '{}' to party {} which is not in p_out={:?}", m.from, m.phase, m.to, spec.p_out),
                &sv,
            ));
        }
        if to_outsider && m.seq > t_done[m.from] && m.phase != "labels" {
            out.push(viol(
                "traffic-after-input-processing",
                "traffic-after-input-processing",
                format!(
                    "party {} sent '{}' ({} bytes) to non-output party {} after finishing input processing",
                    m.from,
                    m.phase,
                    m.data.len(),
                    m.to
                ),
                &sv,
            ));
        }
        if m.phase == "output wire shares" || m.phase == "lambda" {
            match schema::decode_msg(&m.phase, &m.data) {
                Ok(V::Vec(elems, _)) => {
                    for (r, e) in elems.iter().enumerate() {
                        let some = matches!(e, V::Opt(_, Some(_)));
                        let want = uniq_outs.contains(&(r as u32));
                        if some != want {
                            out.push(viol(
                                "output-values-at-non-output-wire",
                                "output-values-at-non-output-wire",
                                format!(
                                    "'{}' from {} to {} carries {} at register {r}, output registers are {:?}",
                                    m.phase,
                                    m.from,
                                    m.to,
                                    if some { "a value" } else { "nothing" },
                                    uniq_outs
                                ),
                                &sv,
                            ));
                            break;
                        }
                    }
                }
                _ => out.push(viol("harness-error", "schema", format!("cannot decode {}", m.phase), &sv)),
            }
        }
    }
    out
}

fn msgs_to(run: &MpcRun, q: usize) -> usize {
    run.res.transcript.iter().filter(|m| m.to == q).count()
}

impl Check for C05 {
    fn id(&self) -> &'static str {
        "C05"
    }
    fn level(&self) -> &'static str {
        "exploration"
    }
    fn rule(&self) -> String {
        "each evaluation is one simulated all-honest execution (n in 2..4, every non-empty output set shape, also written with repeated indices and at least n entries, evaluator inside or outside it, circuits whose outputs alias reused registers) whose complete transcript is analysed: nothing is addressed to a non-output party after the sender finished input processing, 'output wire shares' / 'lambda' never go to a non-output party and carry values exactly at the unique output registers; every fourth run is repeated with the output set enlarged by one outsider q and the number of messages q receives must differ by exactly the output-stage messages (label-independent backstop); non-trivial = runs with at least one party outside p_out; distinct = (circuit, roles) hash".into()
    }
    fn assumptions(&self) -> Vec<String> {
        vec!["privacy is checked in the operational form of the statement (what is sent to whom), not as indistinguishability".into()]
    }
    fn cases(&self, tier: Tier, seed: u64) -> Vec<Value> {
        let k = match tier {
            Tier::Quick => 64,
            Tier::Thorough => 2000,
        };
        (0..k).map(|k| json!({"seed": seed, "k": k})).collect()
    }
    fn run_case(&self, case: &Value, cx: &CaseCx) -> CaseOut {
        let seed = case["seed"].as_u64().unwrap();
        let k0 = case["k"].as_u64().unwrap();
        let mut out = CaseOut::default();
        for j in 0..8u64 {
            let k = k0 * 8 + j;
            let mut rng = entropy::rng(seed, 0xc05, k);
            let n = [2, 3, 3, 4][rng.random_range(0..4)];
            let (a, o) = (rng.random_range(0..12), rng.random_range(0..12));
            let mut spec = gen_honest(&mut rng, n, a, o, &[0, 1, 2]);
            // make sure somebody is outside the output set most of the time
            if spec.p_out.len() == n && rng.random_bool(0.8) {
                let drop = rng.random_range(0..n);
                spec.p_out.retain(|p| *p != drop);
            }
            // the output set is a set however it is written: in a third of the runs with an outsider
            // it is passed with repeated indices, at least as many entries as there are parties
            if spec.p_out.len() < n && rng.random_bool(0.33) {
                let members = spec.p_out.clone();
                while spec.p_out.len() < n + rng.random_range(0..2) {
                    spec.p_out.push(members[rng.random_range(0..members.len())]);
                }
                spec.p_out.shuffle(&mut rng);
                out.count("output_set_written_with_repetitions", 1);
            }
            let sv = serde_json::to_value(&spec).unwrap();
            cx.begin(&sv);
            let run = mpcrun::run(&spec, None);
            out.evals += 1;
            out.sim_steps += run.res.steps;
            let outsiders: Vec<usize> = (0..n).filter(|p| !spec.p_out.contains(p)).collect();
            if !outsiders.is_empty() {
                out.distinct.push(
                    entropy::fnv(0, serde_json::to_string(&spec.circ).unwrap().as_bytes())
                        ^ entropy::mix(spec.p_eval as u64, spec.p_out.len() as u64, outsiders[0] as u64),
                );
                out.count("runs_with_outsider", 1);
                if outsiders.contains(&spec.p_eval) {
                    out.count("evaluator_is_outsider", 1);
                }
            }
            out.violations.extend(c05_oracle(&spec, &run));
            if j % 4 == 0 && !outsiders.is_empty() {
                let q = outsiders[rng.random_range(0..outsiders.len())];
                let mut s2 = spec.clone();
                s2.p_out.push(q);
                let run2 = mpcrun::run(&s2, None);
                out.evals += 1;
                out.count("backstop_pairs", 1);
                let extra = (n - 1) + if q != spec.p_eval { 1 } else { 0 };
                let (a, b) = (msgs_to(&run, q), msgs_to(&run2, q));
                if run2.res.ends.iter().all(|e| e.bits().is_some()) && a + extra != b {
                    out.violations.push(viol(
                        "outsider-message-count",
                        "outsider-message-count",
                        format!("non-output party {q} receives {a} messages; as an output party it receives {b}; expected a difference of exactly {extra}"),
                        &sv,
                    ));
                }
            }
            if out.samples.is_empty() {
                let mut s = spec.sample();
                s["messages_to_outsiders"] = json!(outsiders.iter().map(|q| (q, msgs_to(&run, *q))).collect::<Vec<_>>());
                out.samples.push(s);
            }
        }
        out
    }
    fn replay(&self, spec: &Value) -> Vec<Violation> {
        let Ok(spec) = serde_json::from_value::<MpcSpec>(spec.clone()) else {
            return vec![];
        };
        let run = mpcrun::run(&spec, None);
        let mut v = c05_oracle(&spec, &run);
        // the backstop needs the second run
        let n = spec.n();
        for q in (0..n).filter(|p| !spec.p_out.contains(p)) {
            let mut s2 = spec.clone();
            s2.p_out.push(q);
            let run2 = mpcrun::run(&s2, None);
            let extra = (n - 1) + if q != spec.p_eval { 1 } else { 0 };
            let (a, b) = (msgs_to(&run, q), msgs_to(&run2, q));
            if run2.res.ends.iter().all(|e| e.bits().is_some()) && a + extra != b {
                v.push(viol(
                    "outsider-message-count",
                    "outsider-message-count",
                    format!("non-output party {q} receives {a} messages; as an output party {b}; expected difference {extra}"),
                    &serde_json::to_value(&spec).unwrap(),
                ));
            }
        }
        v
    }
    fn shrink(&self, spec: &Value) -> Vec<Value> {
        generic_shrink(spec)
    }
}

// ---------------------------------------------------------------------------------------------
// C09

pub struct C09;

fn pattern(run: &MpcRun, n: usize) -> Vec<Vec<(usize, String)>> {
    let mut p = vec![vec![]; n * n];
    for m in &run.res.transcript {
        p[m.from * n + m.to].push((m.data.len(), m.phase.clone()));
    }
    p
}

fn c09_group(spec0: &MpcSpec, seed: u64, runs: usize) -> (Vec<Violation>, u64, u64) {
    let n = spec0.n();
    let mut rng = entropy::rng(seed, 0xc09a, 0);
    let mut base: Option<(Vec<Vec<(usize, String)>>, MpcSpec)> = None;
    let mut v = vec![];
    let mut steps = 0;
    let mut evals = 0;
    for r in 0..runs {
        let mut s = spec0.clone();
        s.inputs = s
            .inputs
            .iter()
            .map(|i| match r % 3 {
                0 => "0".repeat(i.len()),
                1 => "1".repeat(i.len()),
                _ => (0..i.len()).map(|_| if rng.random() { '1' } else { '0' }).collect(),
            })
            .collect();
        s.seed = rng.random();
        s.sched = SchedSpec {
            strategy: gen_strategy(&mut rng, n),
            seed: rng.random(),
            explicit: vec![],
        };
        let run = mpcrun::run(&s, None);
        evals += 1;
        steps += run.res.steps;
        let sv = json!({"base": spec0, "group_seed": seed, "runs": runs});
        let hv = honest_oracle(&s, &run, false);
        if !hv.is_empty() {
            v.push(viol("honest-run-failed", "honest-run-failed", hv[0].detail.clone(), &sv));
            break;
        }
        let pat = pattern(&run, n);
        match &base {
            None => base = Some((pat, s)),
            Some((b, bs)) => {
                for a in 0..n {
                    for c in 0..n {
                        let (x, y) = (&b[a * n + c], &pat[a * n + c]);
                        if x != y {
                            let i = x.iter().zip(y.iter()).position(|(p, q)| p != q).unwrap_or(x.len().min(y.len()));
                            v.push(viol(
                                "pattern-depends-on-inputs-or-coins",
                                "pattern-depends-on-inputs-or-coins",
                                format!(
                                    "link {a}->{c}: message #{i} is {:?} with inputs {:?} but {:?} with inputs {:?} ({} vs {} messages)",
                                    x.get(i),
                                    bs.inputs,
                                    y.get(i),
                                    s.inputs,
                                    x.len(),
                                    y.len()
                                ),
                                &sv,
                            ));
                            return (v, evals, steps);
                        }
                    }
                }
            }
        }
    }
    (v, evals, steps)
}

/// The engine's wire encoding must give every value of a type the same length: the messages carry
/// secret bits, MACs, keys and labels, and with random coins a 128-bit value is "small" only with
/// probability 2^-64, so a value-dependent (variable-width) encoding never shows in executed runs.
/// Shapes of all message payloads, filled with zeros, with ones and with all-ones values.
fn c09_encoding() -> Vec<Violation> {
    use polytune::verif::wire_encode;
    let sv = json!({"encoding": true});
    let mut v = vec![];
    let mut cmp = |what: &str, lens: Vec<Result<Vec<u8>, String>>| {
        let l: Vec<Option<usize>> = lens.iter().map(|x| x.as_ref().ok().map(|b| b.len())).collect();
        if l.iter().any(|x| x.is_none()) || l.windows(2).any(|w| w[0] != w[1]) {
            v.push(viol(
                "encoded-length-depends-on-values",
                &format!("encoded-length-depends-on-values:{what}"),
                format!("the engine encodes {what} holding zeros / ones / all-ones values in {l:?} bytes: the length of a message reveals the magnitude of the secret values in it"),
                &sv,
            ));
        }
    };
    let k = 7usize;
    let u: [u128; 3] = [0, 1, u128::MAX];
    cmp("Vec<u128>", u.iter().map(|x| wire_encode(&vec![*x; k])).collect());
    cmp("Vec<(bool, u128)>", u.iter().map(|x| wire_encode(&vec![(*x != 0, *x); k])).collect());
    cmp("Vec<Option<(bool, u128)>>", u.iter().map(|x| wire_encode(&vec![Some((*x != 0, *x)); k])).collect());
    cmp("Vec<Option<u128>>", u.iter().map(|x| wire_encode(&vec![Some(*x); k])).collect());
    cmp("Vec<(bool, bool, u128, u128)>", u.iter().map(|x| wire_encode(&vec![(*x != 0, *x == 1, *x, !*x); k])).collect());
    cmp("Vec<(Vec<bool>, Vec<u128>)>", u.iter().map(|x| wire_encode(&vec![(vec![*x != 0; 4], vec![*x; 4]); k])).collect());
    cmp("Vec<(bool, Vec<(u128, u128)>)> (share)", u.iter().map(|x| wire_encode(&vec![(*x != 0, vec![(*x, !*x); 3]); k])).collect());
    cmp("Vec<u32>", [0u32, 1, u32::MAX].iter().map(|x| wire_encode(&vec![*x; k])).collect());
    cmp("Vec<u8>", [0u8, 1, u8::MAX].iter().map(|x| wire_encode(&vec![*x; 32])).collect());
    cmp("Vec<[u8; 32]>", [0u8, 1, u8::MAX].iter().map(|x| wire_encode(&vec![[*x; 32]; k])).collect());
    cmp("Vec<Vec<u8>> (rows)", [0u8, 1, u8::MAX].iter().map(|x| wire_encode(&vec![vec![*x; 40]; k])).collect());
    v
}

impl Check for C09 {
    fn id(&self) -> &'static str {
        "C09"
    }
    fn level(&self) -> &'static str {
        "exploration"
    }
    fn rule(&self) -> String {
        "each case fixes one public configuration (circuit, n, evaluator, output set) and executes it R times (R=6 quick, 12 thorough) with inputs all-0 / all-1 / random, fresh coins and a fresh schedule; per ordered pair the sequence of (byte length, phase label) of all messages must be identical across the R runs. In addition the engine's own wire serializer (hook) encodes every payload shape of the protocol filled with zeros, with ones and with all-ones values: the lengths must be equal (with random coins a small 128-bit value never occurs, so a variable-width encoding would not show in executed runs); evaluations = simulated runs; distinct = public configurations".into()
    }
    fn assumptions(&self) -> Vec<String> {
        vec!["cross-peer interleaving legitimately varies with the schedule and is not compared; per ordered pair the message sequence is".into()]
    }
    fn cases(&self, tier: Tier, seed: u64) -> Vec<Value> {
        let (k, r) = match tier {
            Tier::Quick => (96, 6),
            Tier::Thorough => (3000, 12),
        };
        let mut v: Vec<Value> = (0..k).map(|k| json!({"seed": seed, "k": k, "runs": r})).collect();
        v.push(json!({"seed": seed, "k": 0, "encoding": true}));
        v
    }
    fn run_case(&self, case: &Value, cx: &CaseCx) -> CaseOut {
        if case.get("encoding").is_some() {
            let mut out = CaseOut::default();
            cx.begin(&json!({"encoding": true}));
            out.evals = 1;
            out.count("payload_shapes_encoded_with_extreme_values", 11);
            out.distinct.push(0xe9c0d1);
            out.violations = c09_encoding();
            return out;
        }
        let seed = case["seed"].as_u64().unwrap();
        let k = case["k"].as_u64().unwrap();
        let runs = case["runs"].as_u64().unwrap() as usize;
        let mut rng = entropy::rng(seed, 0xc09, k);
        let n = [2, 2, 3, 4][rng.random_range(0..4)];
        let ands = if k % 24 == 23 { 1001 } else { rng.random_range(0..16) };
        let o = rng.random_range(0..12);
        let spec = gen_honest(&mut rng, if ands > 1000 { 2 } else { n }, ands, o, &[0, 1, 2]);
        let gseed: u64 = rng.random();
        let sv = json!({"base": spec, "group_seed": gseed, "runs": runs});
        cx.begin(&sv);
        let (v, evals, steps) = c09_group(&spec, gseed, runs);
        let mut out = CaseOut::default();
        out.evals = evals;
        out.sim_steps = steps;
        out.distinct.push(entropy::fnv(0, serde_json::to_string(&spec.circ).unwrap().as_bytes()) ^ spec.p_eval as u64);
        out.violations = v;
        if k % 16 == 0 {
            out.samples.push(json!({"public_configuration": spec.sample(), "runs_compared": runs}));
        }
        out
    }
    fn replay(&self, spec: &Value) -> Vec<Violation> {
        if spec.get("encoding").is_some() {
            return c09_encoding();
        }
        let Ok(base) = serde_json::from_value::<MpcSpec>(spec["base"].clone()) else {
            return vec![];
        };
        c09_group(&base, spec["group_seed"].as_u64().unwrap_or(0), spec["runs"].as_u64().unwrap_or(6) as usize).0
    }
    fn shrink(&self, spec: &Value) -> Vec<Value> {
        let Ok(base) = serde_json::from_value::<MpcSpec>(spec["base"].clone()) else {
            return vec![];
        };
        shrink_mpc(&base)
            .into_iter()
            .map(|s| json!({"base": s, "group_seed": spec["group_seed"], "runs": spec["runs"]}))
            .collect()
    }
}

// ---------------------------------------------------------------------------------------------
// C18

pub struct C18;

#[derive(Clone, Debug, serde::Serialize, serde::Deserialize)]
struct C18Case {
    spec: MpcSpec,
    /// what is invalid
    what: String,
    /// parties that hold an invalid argument and must return Err with zero channel operations
    must_reject: Vec<usize>,
    /// "reject" | "reject-or-set" | "no-panic"
    expect: String,
}

fn c18_oracle(c: &C18Case) -> (Vec<Violation>, u64) {
    let sv = serde_json::to_value(c).unwrap();
    let run = mpcrun::run(&c.spec, None);
    let mut v = vec![];
    for (p, e) in run.res.ends.iter().enumerate() {
        if let crate::sim::End::Panic(m) = e {
            let site = m.rsplit(" at ").next().unwrap_or("").to_string();
            v.push(viol("panic", &format!("panic:{}:{}", c.what_class(), site), format!("party {p} panicked ({}): {m}", c.what), &sv));
        }
    }
    match c.expect.as_str() {
        "reject" => {
            for &p in &c.must_reject {
                let e = &run.res.ends[p];
                let ops = run.res.chan_ops[p];
                if !matches!(e, crate::sim::End::Err(_)) || ops != 0 {
                    if matches!(e, crate::sim::End::Panic(_)) {
                        continue;
                    }
                    v.push(viol(
                        "not-rejected-up-front",
                        &format!("not-rejected-up-front:{}", c.what_class()),
                        format!("{}: party {p} ended with {} after {ops} channel operations (expected Err with 0)", c.what, e.summary()),
                        &sv,
                    ));
                }
            }
        }
        "reject-or-set" => {
            let all_rejected = run
                .res
                .ends
                .iter()
                .enumerate()
                .all(|(p, e)| matches!(e, crate::sim::End::Err(_)) && run.res.chan_ops[p] == 0);
            if !all_rejected {
                // must then behave as a set: the C01 result with the de-duplicated output set
                let mut s = c.spec.clone();
                let mut seen = BTreeSet::new();
                s.p_out.retain(|p| seen.insert(*p));
                let hv = honest_oracle(&s, &run, false);
                if let Some(h) = hv.first() {
                    v.push(viol(
                        "duplicate-output-index-mishandled",
                        "duplicate-output-index-mishandled",
                        format!("{}: neither rejected up front nor treated as a set: {}", c.what, h.detail),
                        &sv,
                    ));
                }
            }
        }
        _ => {}
    }
    (v, run.res.steps)
}

impl C18Case {
    fn what_class(&self) -> String {
        self.what.split(':').next().unwrap_or("").to_string()
    }
}

fn c18_gen(seed: u64, k: u64) -> C18Case {
    let mut rng = entropy::rng(seed, 0xc18, k);
    let n = [2, 3, 3, 4][rng.random_range(0..4)];
    let (a, o) = (rng.random_range(0..6), rng.random_range(0..8));
    let mut spec = gen_honest(&mut rng, n, a, o, &[0, 1]);
    spec.sched.strategy = Strategy::Uniform;
    let bad_idx = |rng: &mut rand_chacha::ChaCha8Rng| [n, n + 1, usize::MAX, usize::MAX / 2][rng.random_range(0..4)];
    let p = rng.random_range(0..n);
    let kinds = 17;
    let (what, must_reject, expect): (String, Vec<usize>, &str) = match k % kinds {
        16 => {
            // a circuit to which nobody contributes an input bit (all input counts zero), with or
            // without gates that read registers nobody wrote: rejected by the circuit's own validation
            let gates = rng.random_bool(0.5);
            spec.circ.inputs = vec![0; n];
            spec.circ.insts = if gates { vec!["x0,1>2".to_string()] } else { vec![] };
            spec.circ.outs = vec![if gates { 2 } else { 0 }];
            spec.circ.max_reg = 3;
            spec.circ.and_ops = 0;
            spec.inputs = vec![String::new(); n];
            ("counter-mismatch: circuit without any input".into(), vec![], "no-panic")
        }
        0 => {
            let x = bad_idx(&mut rng);
            // the input vector that goes with a non-existent index: the party's own one, or none at all
            let input = if rng.random_bool(0.5) { Some(String::new()) } else { None };
            let il = input.as_ref().map(|i| i.len()).unwrap_or(spec.inputs[p].len());
            spec.overrides.push(ArgOverride { party: p, p_own: Some(x), input, ..Default::default() });
            (format!("own-index: p_own={x} (n={n}) with {il} input bits"), vec![p], "reject")
        }
        1 => {
            let x = bad_idx(&mut rng);
            spec.p_eval = x;
            (format!("evaluator-index: p_eval={x} (n={n})"), (0..n).collect(), "reject")
        }
        2 => {
            let x = bad_idx(&mut rng);
            let mut po = spec.p_out.clone();
            let at = rng.random_range(0..=po.len());
            po.insert(at, x);
            spec.overrides.push(ArgOverride { party: p, p_out: Some(po), ..Default::default() });
            (format!("output-index: p_out contains {x} (n={n})"), vec![p], "reject")
        }
        3 => {
            let mut i = spec.inputs[p].clone();
            i.push('1');
            spec.overrides.push(ArgOverride { party: p, input: Some(i), ..Default::default() });
            ("input-length: one bit too many".into(), vec![p], "reject")
        }
        4 => {
            let i = spec.inputs[p].clone();
            if i.is_empty() {
                spec.overrides.push(ArgOverride { party: p, input: Some("1".into()), ..Default::default() });
            } else {
                spec.overrides.push(ArgOverride { party: p, input: Some(i[..i.len() - 1].to_string()), ..Default::default() });
            }
            ("input-length: one bit off".into(), vec![p], "reject")
        }
        5 => {
            spec.overrides.push(ArgOverride { party: p, p_out: Some(vec![]), ..Default::default() });
            ("empty-output-set".into(), vec![p], "reject")
        }
        6 => {
            // circuit failing validate(): output register out of range
            spec.circ.outs.push(spec.circ.max_reg as u32 + rng.random_range(0..3));
            ("invalid-circuit: output register out of range".into(), (0..n).collect(), "reject")
        }
        7 => {
            // gate reading a register that is never written
            let r = spec.circ.max_reg;
            spec.circ.max_reg += 2;
            spec.circ.insts.push(format!("x{},{}>{}", r, 0, r + 1));
            ("invalid-circuit: reads unset register".into(), (0..n).collect(), "reject")
        }
        8 => {
            spec.circ.outs.clear();
            ("invalid-circuit: no outputs".into(), (0..n).collect(), "reject")
        }
        9 => {
            // repeated output index
            let d = spec.p_out[rng.random_range(0..spec.p_out.len())];
            let at = rng.random_range(0..=spec.p_out.len());
            spec.p_out.insert(at, d);
            (format!("repeated-output-index: p_out={:?}", spec.p_out), vec![], "reject-or-set")
        }
        10 => {
            // unsorted output set (valid; must behave like C01)
            spec.p_out = (0..n).rev().collect();
            (format!("unsorted-output-set: p_out={:?}", spec.p_out), vec![], "reject-or-set")
        }
        11 => {
            // and_ops counter smaller / larger than the instructions say
            if spec.circ.and_ops > 0 && rng.random_bool(0.5) {
                spec.circ.and_ops -= 1;
                ("counter-mismatch: and_ops too small".into(), vec![], "no-panic")
            } else {
                spec.circ.and_ops += rng.random_range(1..3);
                ("counter-mismatch: and_ops too large".into(), vec![], "no-panic")
            }
        }
        12 => {
            // surplus Input instruction (more Input instructions than input_regs announce)
            let num_in: usize = spec.circ.inputs.iter().sum();
            let tail: Vec<String> = spec.circ.insts.split_off(num_in);
            spec.circ.insts.push(format!("i{}.0>{}", p, num_in));
            // shift: keep the gates, registers stay valid because max_reg grows
            spec.circ.max_reg += 1;
            let _ = tail; // gates dropped: their registers would collide with the new input
            spec.circ.outs = vec![num_in as u32];
            spec.circ.and_ops = 0;
            ("counter-mismatch: surplus Input instruction".into(), vec![], "no-panic")
        }
        13 => {
            // Input instruction after a gate (position == out register, passes Circuit::validate)
            let pos = spec.circ.insts.len();
            if spec.circ.max_reg <= pos {
                spec.circ.max_reg = pos + 1;
            }
            spec.circ.insts.push(format!("i{}.0>{}", p, pos));
            ("counter-mismatch: Input instruction after gates".into(), vec![], "no-panic")
        }
        14 => {
            // Input.party out of range
            let num_in: usize = spec.circ.inputs.iter().sum();
            let j = rng.random_range(0..num_in);
            let out = spec.circ.insts[j].split('>').nth(1).unwrap().to_string();
            spec.circ.insts[j] = format!("i{}.0>{}", n + rng.random_range(0..3), out);
            ("counter-mismatch: Input.party out of range".into(), vec![], "no-panic")
        }
        _ => {
            // Input.input out of range
            let num_in: usize = spec.circ.inputs.iter().sum();
            let j = rng.random_range(0..num_in);
            let (head, out) = spec.circ.insts[j].split_once('>').unwrap();
            let party = head[1..].split('.').next().unwrap().to_string();
            // far beyond every count, or just beyond the owner's own count (still below the total)
            let own: usize = party.parse::<usize>().ok().and_then(|q| spec.circ.inputs.get(q).copied()).unwrap_or(0);
            let idx = if rng.random_bool(0.5) { 40 + rng.random_range(0..100) } else { own + rng.random_range(0..2) };
            spec.circ.insts[j] = format!("i{}.{}>{}", party, idx, out);
            ("counter-mismatch: Input.input out of range".into(), vec![], "no-panic")
        }
    };
    C18Case {
        spec,
        what,
        must_reject,
        expect: expect.into(),
    }
}

impl Check for C18 {
    fn id(&self) -> &'static str {
        "C18"
    }
    fn level(&self) -> &'static str {
        "exploration"
    }
    fn rule(&self) -> String {
        "each evaluation is one simulated execution in which exactly one argument is invalid (own index / evaluator index / output index in {n, n+1, usize::MAX/2, usize::MAX}; input length +-1; empty output set; circuits failing validate(); repeated or unsorted output sets; and_ops too small / large; surplus or misplaced Input instructions; Input.party / Input.input out of range) and everything else is valid, all parties running; the party holding the invalid argument must return Err with a channel-operation counter of 0, nobody may panic, a repeated output index must be rejected by everybody or the run must give the C01 result; distinct = (kind of invalid argument, configuration) hash".into()
    }
    fn assumptions(&self) -> Vec<String> {
        vec!["the schedule dimension is degenerate for the up-front part; the simulator contributes the per-party channel-operation counter, panic capture and the full run for the 'treated as a set' branch".into()]
    }
    fn cases(&self, tier: Tier, seed: u64) -> Vec<Value> {
        let k = match tier {
            Tier::Quick => 32,
            Tier::Thorough => 800,
        };
        (0..k).map(|k| json!({"seed": seed, "k": k})).collect()
    }
    fn run_case(&self, case: &Value, cx: &CaseCx) -> CaseOut {
        let seed = case["seed"].as_u64().unwrap();
        let k0 = case["k"].as_u64().unwrap();
        let mut out = CaseOut::default();
        for j in 0..16u64 {
            let k = k0 * 16 + j;
            let c = c18_gen(seed, k);
            let sv = serde_json::to_value(&c).unwrap();
            cx.begin(&sv);
            let (v, steps) = c18_oracle(&c);
            out.evals += 1;
            out.sim_steps += steps;
            out.count(&format!("kind:{}", c.what_class()), 1);
            out.distinct.push(entropy::fnv(0, c.what.as_bytes()) ^ entropy::fnv(0, serde_json::to_string(&c.spec.circ).unwrap().as_bytes()));
            out.violations.extend(v);
            if out.samples.len() < 2 && j % 7 == 0 {
                out.samples.push(json!({"invalid": c.what, "expect": c.expect, "config": c.spec.sample()}));
            }
        }
        out
    }
    fn replay(&self, spec: &Value) -> Vec<Violation> {
        match serde_json::from_value::<C18Case>(spec.clone()) {
            Ok(c) => c18_oracle(&c).0,
            Err(_) => vec![],
        }
    }
}

// ---------------------------------------------------------------------------------------------
// C19

pub struct C19;

type Elem = (bool, Vec<(u128, u128)>);

#[derive(Clone, Debug, serde::Serialize, serde::Deserialize)]
enum BufOp {
    Append(usize),
    IterAll,
    IterTake(usize),
    ChunksAll,
    ChunksTake(usize),
}

#[derive(Clone, Debug, serde::Serialize, serde::Deserialize)]
struct C19Hist {
    chunk: usize,
    ops: Vec<BufOp>,
    elem_kind: u8,
    seed: u64,
}

fn mk_elem(kind: u8, x: u64) -> Elem {
    match kind {
        0 => (x & 1 == 1, vec![]),
        _ => (x & 1 == 1, (0..(kind as usize)).map(|i| ((x as u128) << 64 | i as u128, !(x as u128))).collect()),
    }
}

fn c19_model(h: &C19Hist) -> Vec<Violation> {
    use polytune::verif::SpillBuf;
    let sv = json!({"hist": h});
    let dir = mpcrun::scratch_root().join(format!("c19-{}-{}", std::process::id(), h.seed));
    let _ = std::fs::create_dir_all(&dir);
    let mut v = vec![];
    let res = (|| -> Result<(), String> {
        let mut file = SpillBuf::<Elem>::new(Some(&dir), 0)?;
        let mut mem = SpillBuf::<Elem>::new(None, 0)?;
        if !file.is_file() || mem.is_file() {
            return Err("variant selection".into());
        }
        let mut model: Vec<Vec<Elem>> = vec![];
        let mut ctr = 0u64;
        let listing = |when: &str| -> Option<String> {
            let l: Vec<String> = std::fs::read_dir(&dir)
                .map(|rd| rd.flatten().map(|e| e.file_name().to_string_lossy().to_string()).collect())
                .unwrap_or_default();
            if l.is_empty() { None } else { Some(format!("directory not empty {when}: {l:?}")) }
        };
        for (i, op) in h.ops.iter().enumerate() {
            let flat: Vec<Elem> = model.iter().flatten().cloned().collect();
            match op {
                BufOp::Append(sz) => {
                    let chunk: Vec<Elem> = (0..*sz)
                        .map(|_| {
                            ctr += 1;
                            mk_elem(h.elem_kind, ctr)
                        })
                        .collect();
                    file.write_chunk(&chunk)?;
                    mem.write_chunk(&chunk)?;
                    model.push(chunk);
                }
                BufOp::IterAll | BufOp::IterTake(_) => {
                    let take = if let BufOp::IterTake(k) = op { Some(*k) } else { None };
                    let a = file.read_items(take)?;
                    let b = mem.read_items(take)?;
                    let want: Vec<Elem> = flat.iter().take(take.unwrap_or(usize::MAX)).cloned().collect();
                    if a != want {
                        return Err(format!("op {i} {op:?}: file variant yields {} items, model {} (first difference at {:?})", a.len(), want.len(), a.iter().zip(&want).position(|(x, y)| x != y)));
                    }
                    if b != want {
                        return Err(format!("op {i} {op:?}: memory variant yields {} items, model {}", b.len(), want.len()));
                    }
                }
                BufOp::ChunksAll | BufOp::ChunksTake(_) => {
                    let take = if let BufOp::ChunksTake(k) = op { Some(*k) } else { None };
                    let a = file.read_chunks(h.chunk, take)?;
                    let b = mem.read_chunks(h.chunk, take)?;
                    // same items in the same order, always
                    let fa: Vec<Elem> = a.iter().flatten().cloned().collect();
                    let fb: Vec<Elem> = b.iter().flatten().cloned().collect();
                    if take.is_none() && (fa != flat || fb != flat) {
                        return Err(format!("op {i} {op:?}: chunk-wise read yields {} / {} items, model {}", fa.len(), fb.len(), flat.len()));
                    }
                    // same boundaries when all appends but the last had the requested size
                    let regular = model.len() <= 1 || model[..model.len() - 1].iter().all(|c| c.len() == h.chunk);
                    let regular = regular && model.last().is_none_or(|c| c.len() <= h.chunk);
                    if regular {
                        let la: Vec<usize> = a.iter().map(|c| c.len()).collect();
                        let lb: Vec<usize> = b.iter().map(|c| c.len()).collect();
                        if la != lb || a != b {
                            return Err(format!("op {i} {op:?}: chunk boundaries differ: file {la:?} vs memory {lb:?}"));
                        }
                    } else if take.is_some() {
                        // prefix property only
                        if !flat.starts_with(&fa) || !flat.starts_with(&fb) {
                            return Err(format!("op {i} {op:?}: partial chunk read is not a prefix of the contents"));
                        }
                    }
                }
            }
            if let Some(l) = listing("during the history") {
                return Err(l);
            }
        }
        drop(file);
        drop(mem);
        if let Some(l) = listing("after drop") {
            return Err(l);
        }
        Ok(())
    })();
    if let Err(e) = res {
        v.push(viol("spill-buffer-differs-from-model", "spill-buffer-differs-from-model", e, &sv));
    }
    let _ = std::fs::remove_dir_all(&dir);
    v
}

fn c19_gen_hist(seed: u64, k: u64) -> C19Hist {
    let mut rng = entropy::rng(seed, 0xc19, k);
    // one history in twenty works at the engine's scale: chunks of hundreds to thousands of
    // elements of up to a few KiB each (a single encoded chunk of up to several MiB)
    let big = k % 20 == 19;
    // ... and one in three hundred appends a single chunk of 40000 tiny elements
    let huge = k % 300 == 299;
    let chunk = if huge { 40_000 } else if big { [256usize, 1000, 2500][rng.random_range(0..3)] } else { [1usize, 2, 3, 5, 8][rng.random_range(0..5)] };
    let len = if big { rng.random_range(1..=5) } else { rng.random_range(1..=12) };
    let regular = rng.random_bool(0.5);
    let mut ops = vec![];
    for i in 0..len {
        ops.push(match rng.random_range(0..8) {
            0..=2 => {
                if regular && i + 3 < len {
                    BufOp::Append(chunk)
                } else {
                    BufOp::Append(rng.random_range(1..=(if big { chunk + chunk / 4 } else { 3 * chunk })))
                }
            }
            3 => BufOp::IterAll,
            4 => BufOp::IterTake(rng.random_range(0..3 * chunk)),
            5 => BufOp::ChunksAll,
            6 => BufOp::ChunksTake(rng.random_range(0..3)),
            _ => BufOp::Append(rng.random_range(1..=(if big { chunk + chunk / 4 } else { 3 * chunk }))),
        });
    }
    if big {
        // at least one full-size append followed by a complete read
        ops.insert(0, BufOp::Append(chunk));
        ops.push(if rng.random() { BufOp::IterAll } else { BufOp::ChunksAll });
    }
    if regular {
        // keep the "all appends but the last have the requested size" shape for boundary checks
        let idx: Vec<usize> = ops.iter().enumerate().filter(|(_, o)| matches!(o, BufOp::Append(_))).map(|(i, _)| i).collect();
        for (n, i) in idx.iter().enumerate() {
            if n + 1 < idx.len() {
                ops[*i] = BufOp::Append(chunk);
            } else if let BufOp::Append(s) = &ops[*i] {
                ops[*i] = BufOp::Append((*s).min(chunk));
            }
        }
    }
    C19Hist {
        chunk,
        ops,
        elem_kind: if huge { 0 } else if big { [0u8, 3, 40, 120][rng.random_range(0..4)] } else { rng.random_range(0..4) },
        seed: entropy::mix(seed, 0xc19f, k),
    }
}

/// Engine part: same seed and same recorded schedule, every tmp_dir assignment: identical
/// transcripts and results.
fn c19_engine(spec: &MpcSpec) -> (Vec<Violation>, u64, u64) {
    let n = spec.n();
    let mut base = spec.clone();
    base.tmp = vec![false; n];
    let r0 = mpcrun::run_recorded(&base);
    let decisions: Vec<String> = r0.res.decisions.clone();
    let h0 = r0.res.transcript_hash();
    let ends0: Vec<String> = r0.res.ends.iter().map(|e| e.summary()).collect();
    let mut v = vec![];
    let mut evals = 1;
    let mut steps = r0.res.steps;
    let hv = honest_oracle(&base, &r0, false);
    if let Some(h) = hv.first() {
        v.push(viol("honest-run-failed", "honest-run-failed", h.detail.clone(), &json!({"engine": base})));
        return (v, evals, steps);
    }
    for mask in 1..(1u32 << n) {
        let mut s = spec.clone();
        s.tmp = (0..n).map(|p| mask >> p & 1 == 1).collect();
        s.sched.explicit = decisions.clone();
        let r = mpcrun::run(&s, None);
        evals += 1;
        steps += r.res.steps;
        let sv = json!({"engine": s});
        let ends: Vec<String> = r.res.ends.iter().map(|e| e.summary()).collect();
        if r.res.transcript_hash() != h0 || ends != ends0 {
            let at = r
                .res
                .transcript
                .iter()
                .zip(r0.res.transcript.iter())
                .position(|(a, b)| a.data != b.data || a.from != b.from || a.to != b.to);
            v.push(viol(
                "spilling-changes-traffic-or-result",
                "spilling-changes-traffic-or-result",
                format!(
                    "tmp={:?}: results {:?} vs all-in-memory {:?}; first differing message index {:?} ({} vs {} messages)",
                    s.tmp,
                    ends,
                    ends0,
                    at,
                    r.res.transcript.len(),
                    r0.res.transcript.len()
                ),
                &sv,
            ));
        }
        if !r.leftovers.is_empty() {
            v.push(viol("tmp-file-left", "tmp-file-left", format!("{:?}", r.leftovers), &sv));
        }
    }
    (v, evals, steps)
}

impl Check for C19 {
    fn id(&self) -> &'static str {
        "C19"
    }
    fn level(&self) -> &'static str {
        "exploration"
    }
    fn rule(&self) -> String {
        "two kinds of evaluation: (a) storage model: a seeded operation history of length <= 12 over {append(size 1..3*chunk; chunk in {1,2,3,5,8}, and in one history of twenty chunk in {256,1000,2500} with elements of up to 3.8 KiB, i.e. single encoded chunks of up to 9 MiB, and in one of three hundred a single chunk of 40000 small elements), iterate fully, iterate k items then drop, chunks fully, chunks k then drop, re-append} applied in lock-step to the real temp-file buffer, the real in-memory buffer and a Vec<Vec<_>> reference model with the engine's share-shaped element type: same items, same order, same chunk boundaries whenever all appends but the last had the requested size, directory empty during and after; (b) engine: one simulated mpc execution per tmp_dir assignment of an n<=3 configuration, all replaying the recorded schedule of the all-in-memory run with the same coins: transcripts must be byte-identical and results equal; circuits above 1000 AND gates (several chunks) in a fixed share; distinct = history / (configuration, assignment) hash".into()
    }
    fn assumptions(&self) -> Vec<String> {
        vec!["I/O faults (ENOSPC, short writes) are outside the property's statement and are not injected; the temp files are real files in a per-run directory".into()]
    }
    fn real_components(&self) -> Vec<&'static str> {
        vec!["utils::file_or_mem_buf (both variants, real temp files)", "polytune::mpc"]
    }
    fn cases(&self, tier: Tier, seed: u64) -> Vec<Value> {
        let (hist, eng) = match tier {
            Tier::Quick => (40, 24),
            Tier::Thorough => (2000, 600),
        };
        let mut v: Vec<Value> = (0..hist).map(|k| json!({"seed": seed, "kind": "hist", "k": k})).collect();
        v.extend((0..eng).map(|k| json!({"seed": seed, "kind": "engine", "k": k})));
        v
    }
    fn run_case(&self, case: &Value, cx: &CaseCx) -> CaseOut {
        let seed = case["seed"].as_u64().unwrap();
        let k = case["k"].as_u64().unwrap();
        let mut out = CaseOut::default();
        if case["kind"] == "hist" {
            for j in 0..50u64 {
                let h = c19_gen_hist(seed, k * 50 + j);
                cx.begin(&json!({"hist": h}));
                out.evals += 1;
                out.count("histories", 1);
                if h.chunk >= 256 {
                    out.count("histories_at_engine_scale", 1);
                }
                out.distinct.push(entropy::fnv(0, serde_json::to_string(&h.ops).unwrap().as_bytes()) ^ h.chunk as u64);
                out.violations.extend(c19_model(&h));
                if j == 0 && k % 10 == 0 {
                    out.samples.push(json!({"history": h}));
                }
            }
        } else {
            let mut rng = entropy::rng(seed, 0xc19e, k);
            let n = [2, 2, 3][rng.random_range(0..3)];
            let ands = if k % 6 == 5 { [1001, 2001][(k as usize / 6) % 2] } else { rng.random_range(0..24) };
            let o = rng.random_range(0..12);
        let spec = gen_honest(&mut rng, if ands > 1000 { 2 } else { n }, ands, o, &[0, 1, 2]);
            cx.begin(&json!({"engine": spec}));
            let (v, evals, steps) = c19_engine(&spec);
            out.evals += evals;
            out.sim_steps += steps;
            out.count("engine_assignments", evals);
            out.distinct.push(entropy::fnv(0, serde_json::to_string(&spec.circ).unwrap().as_bytes()));
            out.violations.extend(v);
            if k % 8 == 0 {
                out.samples.push(json!({"engine_configuration": spec.sample(), "assignments_compared": evals}));
            }
        }
        out
    }
    fn replay(&self, spec: &Value) -> Vec<Violation> {
        if let Ok(h) = serde_json::from_value::<C19Hist>(spec["hist"].clone()) {
            return c19_model(&h);
        }
        if let Ok(s) = serde_json::from_value::<MpcSpec>(spec["engine"].clone()) {
            // a reported spec carries the failing assignment and the explicit schedule
            if !s.sched.explicit.is_empty() {
                let mut base = s.clone();
                base.tmp = vec![false; s.n()];
                let r0 = mpcrun::run(&base, None);
                let r = mpcrun::run(&s, None);
                let e0: Vec<String> = r0.res.ends.iter().map(|e| e.summary()).collect();
                let e1: Vec<String> = r.res.ends.iter().map(|e| e.summary()).collect();
                if r0.res.transcript_hash() != r.res.transcript_hash() || e0 != e1 {
                    return vec![viol(
                        "spilling-changes-traffic-or-result",
                        "spilling-changes-traffic-or-result",
                        format!("tmp={:?}: results {:?} vs all-in-memory {:?}", s.tmp, e1, e0),
                        spec,
                    )];
                }
                return vec![];
            }
            return c19_engine(&s).0;
        }
        vec![]
    }
    fn shrink(&self, spec: &Value) -> Vec<Value> {
        if let Ok(h) = serde_json::from_value::<C19Hist>(spec["hist"].clone()) {
            let mut out = vec![];
            for i in 0..h.ops.len() {
                let mut h2 = h.clone();
                h2.ops.remove(i);
                out.push(json!({"hist": h2}));
            }
            return out;
        }
        vec![]
    }
}

// keep the Task import used (C11 lives in preproc.rs); silence otherwise-unused warnings
#[allow(dead_code)]
fn _unused(_: Arc<dyn Task>, _: &SimChannel, _: Pin<Box<dyn Future<Output = TaskOut>>>, _: BTreeMap<u8, u8>, _: CircSpec, _: &dyn Fn() -> Vec<bool>) {
    let _ = circ::bits_to_string(&[]);
}
