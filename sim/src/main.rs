//! polysim: deterministic simulation with fault injection for sine-fdn/polytune.
mod alloc;
mod checks;
mod circ;
mod entropy;
mod framework;
mod mpcrun;
mod mutate;
mod schema;
mod selftest;
mod server;
mod sim;

use framework::Tier;

#[global_allocator]
static GLOBAL: alloc::Counting = alloc::Counting;

fn usage() -> ! {
    eprintln!("usage: polysim run <ID> <quick|thorough> | replay <ID> <file> | worker <ID> <tier> <seed> <wid> | list");
    std::process::exit(2)
}

fn main() {
    let a: Vec<String> = std::env::args().collect();
    if a.len() < 2 {
        usage();
    }
    match a[1].as_str() {
        "list" => {
            for c in checks::all() {
                println!("{}", c.id());
            }
        }
        "run" => {
            if a.len() < 4 {
                usage();
            }
            let Some(c) = checks::by_id(&a[2]) else { usage() };
            let Some(t) = Tier::parse(&a[3]) else { usage() };
            std::process::exit(framework::run_check(c.as_ref(), t, framework::default_seed()));
        }
        "worker" => {
            if a.len() < 6 {
                usage();
            }
            let Some(c) = checks::by_id(&a[2]) else { usage() };
            let Some(t) = Tier::parse(&a[3]) else { usage() };
            let seed: u64 = a[4].parse().unwrap_or_else(|_| usage());
            let wid: usize = a[5].parse().unwrap_or_else(|_| usage());
            framework::worker_main(c.as_ref(), t, seed, wid);
        }
        "replay" => {
            if a.len() < 4 {
                usage();
            }
            let Some(c) = checks::by_id(&a[2]) else { usage() };
            std::process::exit(framework::replay_main(c.as_ref(), &a[3]));
        }
        "node-loop" => {
            let n: usize = a[2].parse().unwrap();
            let rss = || std::fs::read_to_string("/proc/self/statm").ok().and_then(|s| s.split(' ').nth(1).and_then(|x| x.parse::<u64>().ok())).unwrap_or(0) * 4096 / (1 << 20);
            for i in 0..n {
                std::thread::spawn(move || {
                    let rt = tokio::runtime::Builder::new_current_thread().enable_time().build().unwrap();
                    let _g = rt.enter();
                    if std::env::var("ONLY_CLIENT").is_ok() {
                        let c = reqwest::Client::new();
                        drop(c);
                    } else {
                        server::node_probe();
                    }
                })
                .join()
                .unwrap();
                if i % 100 == 0 {
                    println!("node {i}: rss {} MiB", rss());
                }
            }
        }
        "srv-loop" => {
            // memory check of simulator B: run one specification n times in this process
            sim::install_panic_hook();
            let spec: server::ServerSpec = serde_json::from_str(&std::fs::read_to_string(&a[2]).unwrap()).unwrap();
            let n: usize = a[3].parse().unwrap();
            let rss = || std::fs::read_to_string("/proc/self/statm").ok().and_then(|s| s.split(' ').nth(1).and_then(|x| x.parse::<u64>().ok())).unwrap_or(0) * 4096 / (1 << 20);
            for i in 0..n {
                let mut s = spec.clone();
                s.seed = s.seed.wrapping_add(i as u64);
                let _ = server::run(&s);
                if i % 100 == 0 {
                    println!("run {i}: rss {} MiB", rss());
                }
            }
            println!("end: rss {} MiB", rss());
        }
        "srv-debug" => {
            sim::install_panic_hook();
            let spec: server::ServerSpec = serde_json::from_str(&std::fs::read_to_string(&a[2]).unwrap()).unwrap();
            let run = server::run(&spec);
            for l in &run.log {
                println!("{l}");
            }
            println!("calls: {:?}", run.calls);
            println!("permits {:?} stalled {:?} panics {:?} pending {:?}", run.permits, run.stalled_machines, run.panics, run.pending_at_end);
        }
        "selftest-determinism" => {
            let n = a.get(2).and_then(|s| s.parse().ok()).unwrap_or(200);
            std::process::exit(selftest::main(n));
        }
        "selftest-child" => {
            selftest::child(a[2].parse().unwrap(), a[3].parse().unwrap(), a[4].parse().unwrap());
        }
        _ => usage(),
    }
}
