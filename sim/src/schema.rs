//! Independent statement of polytune's wire format: phase label -> layout, with a decoder and
//! encoder for `bincode::config::legacy()` (u64 LE length prefixes, fixed-width LE integers,
//! bool = 1 byte, Option = 1 tag byte, tuples / fixed arrays without prefix).
//! Every check first verifies that all messages of an honest run decode and re-encode to the same
//! bytes; if not, the harness is out of date (exit 2), never a violation.

#[derive(Clone, Debug, PartialEq)]
pub enum T {
    Unit,
    U8,
    Bool,
    U32,
    U128,
    Str,
    Arr(usize, Box<T>),
    Vec(Box<T>),
    Tup(Vec<T>),
    Opt(Box<T>),
}

#[derive(Clone, Debug, PartialEq)]
pub enum V {
    Unit,
    U8(u8),
    /// raw byte so that invalid encodings (2..255) can be expressed
    Bool(u8),
    U32(u32),
    U128(u128),
    Str(Vec<u8>),
    Arr(Vec<V>),
    /// elements + the length prefix to write (normally == len)
    Vec(Vec<V>, u64),
    Tup(Vec<V>),
    /// tag byte + payload
    Opt(u8, Option<Box<V>>),
}

fn block() -> T {
    T::Arr(16, Box::new(T::U8))
}
fn arr32() -> T {
    T::Arr(32, Box::new(T::U8))
}
fn share() -> T {
    T::Tup(vec![
        T::Bool,
        T::Vec(Box::new(T::Tup(vec![T::U128, T::U128]))),
    ])
}

/// Element type of the message with this phase label (every message is a `Vec<elem>`).
pub fn elem_type(phase: &str) -> Option<T> {
    if phase.starts_with("broadcast ") {
        return Some(T::Opt(Box::new(T::U128)));
    }
    Some(match phase {
        "RNG comm" => arr32(),
        "RNG ver" => T::U8,
        "CO_OT_s" => T::U8,
        "CO_OT_r" => T::Vec(Box::new(T::U8)),
        "CO_OT_c0c1" => T::Tup(vec![block(), block()]),
        "ALSZ_OT_setup" => T::Vec(Box::new(T::U8)),
        "KOS_OT_x_t0_t1" => T::Tup(vec![block(), block(), block()]),
        "KOS_OT_corr" => block(),
        "KOS_OT_toss_comm" => T::U8,
        "KOS_OT_toss_open" => T::U8,
        "fabitn" => T::Tup(vec![T::Bool, T::U128]),
        "fashare comm" => T::Tup(vec![arr32(), arr32(), arr32()]),
        "fashare ver" => T::Vec(Box::new(T::U8)),
        "fashare di_bi" => T::U128,
        "haand" => T::Tup(vec![T::Bool, T::Bool]),
        "flaand" => T::Tup(vec![T::Bool, T::U128]),
        "flaand comm" => arr32(),
        "flaand hash" => T::U128,
        "dvalue" => T::Tup(vec![T::Vec(Box::new(T::Bool)), T::Vec(Box::new(T::U128))]),
        "faand" => T::Tup(vec![T::Bool, T::Bool, T::U128, T::U128]),
        "preprocessed gates" => T::Arr(4, Box::new(T::Vec(Box::new(T::U8)))),
        "wire shares" => T::Opt(Box::new(T::Tup(vec![T::Bool, T::U128]))),
        "masked inputs" => T::Opt(Box::new(T::Bool)),
        "labels" => T::Opt(Box::new(T::U128)),
        "output wire shares" => T::Opt(Box::new(T::Tup(vec![T::Bool, T::U128]))),
        "lambda" => T::Opt(Box::new(T::Tup(vec![T::Bool, T::U128]))),
        // trusted dealer
        "delta" => T::Unit,
        "delta (fpre)" => T::U128,
        "random shares" => T::U32,
        "random shares (fpre)" => share(),
        "AND shares" => T::Tup(vec![share(), share()]),
        "AND shares (fpre)" => share(),
        "error" => T::Str,
        _ => return None,
    })
}

pub fn msg_type(phase: &str) -> Option<T> {
    elem_type(phase).map(|e| T::Vec(Box::new(e)))
}

pub fn decode(t: &T, b: &[u8], pos: &mut usize) -> Result<V, String> {
    let need = |pos: &usize, k: usize| -> Result<(), String> {
        if *pos + k > b.len() {
            Err(format!("eof at {} (+{k}) of {}", pos, b.len()))
        } else {
            Ok(())
        }
    };
    Ok(match t {
        T::Unit => V::Unit,
        T::U8 => {
            need(pos, 1)?;
            *pos += 1;
            V::U8(b[*pos - 1])
        }
        T::Bool => {
            need(pos, 1)?;
            *pos += 1;
            V::Bool(b[*pos - 1])
        }
        T::U32 => {
            need(pos, 4)?;
            *pos += 4;
            V::U32(u32::from_le_bytes(b[*pos - 4..*pos].try_into().unwrap()))
        }
        T::U128 => {
            need(pos, 16)?;
            *pos += 16;
            V::U128(u128::from_le_bytes(b[*pos - 16..*pos].try_into().unwrap()))
        }
        T::Str => {
            need(pos, 8)?;
            let l = u64::from_le_bytes(b[*pos..*pos + 8].try_into().unwrap()) as usize;
            *pos += 8;
            need(pos, l)?;
            *pos += l;
            V::Str(b[*pos - l..*pos].to_vec())
        }
        T::Arr(k, e) => {
            let mut v = Vec::with_capacity(*k);
            for _ in 0..*k {
                v.push(decode(e, b, pos)?);
            }
            V::Arr(v)
        }
        T::Vec(e) => {
            need(pos, 8)?;
            let l = u64::from_le_bytes(b[*pos..*pos + 8].try_into().unwrap());
            *pos += 8;
            if l as usize > b.len() && **e != T::Unit {
                return Err(format!("length prefix {l} exceeds message"));
            }
            let mut v = Vec::with_capacity((l as usize).min(1 << 16));
            for _ in 0..l {
                v.push(decode(e, b, pos)?);
            }
            V::Vec(v, l)
        }
        T::Tup(ts) => {
            let mut v = Vec::with_capacity(ts.len());
            for t in ts {
                v.push(decode(t, b, pos)?);
            }
            V::Tup(v)
        }
        T::Opt(e) => {
            need(pos, 1)?;
            let tag = b[*pos];
            *pos += 1;
            match tag {
                0 => V::Opt(0, None),
                1 => V::Opt(1, Some(Box::new(decode(e, b, pos)?))),
                x => return Err(format!("option tag {x}")),
            }
        }
    })
}

pub fn encode(v: &V, out: &mut Vec<u8>) {
    match v {
        V::Unit => {}
        V::U8(x) => out.push(*x),
        V::Bool(x) => out.push(*x),
        V::U32(x) => out.extend_from_slice(&x.to_le_bytes()),
        V::U128(x) => out.extend_from_slice(&x.to_le_bytes()),
        V::Str(s) => {
            out.extend_from_slice(&(s.len() as u64).to_le_bytes());
            out.extend_from_slice(s);
        }
        V::Arr(vs) | V::Tup(vs) => {
            for v in vs {
                encode(v, out);
            }
        }
        V::Vec(vs, l) => {
            out.extend_from_slice(&l.to_le_bytes());
            for v in vs {
                encode(v, out);
            }
        }
        V::Opt(tag, inner) => {
            out.push(*tag);
            if let Some(i) = inner {
                encode(i, out);
            }
        }
    }
}

pub fn decode_msg(phase: &str, bytes: &[u8]) -> Result<V, String> {
    let t = msg_type(phase).ok_or_else(|| format!("no schema for phase {phase:?}"))?;
    let mut pos = 0;
    let v = decode(&t, bytes, &mut pos)?;
    if pos != bytes.len() {
        return Err(format!("{} trailing bytes", bytes.len() - pos));
    }
    Ok(v)
}

pub fn encode_msg(v: &V) -> Vec<u8> {
    let mut out = vec![];
    encode(v, &mut out);
    out
}

/// Default value of a type (for None -> Some(default) and for growing vectors).
pub fn default_of(t: &T) -> V {
    match t {
        T::Unit => V::Unit,
        T::U8 => V::U8(0),
        T::Bool => V::Bool(0),
        T::U32 => V::U32(0),
        T::U128 => V::U128(0),
        T::Str => V::Str(vec![]),
        T::Arr(k, e) => V::Arr((0..*k).map(|_| default_of(e)).collect()),
        T::Vec(_) => V::Vec(vec![], 0),
        T::Tup(ts) => V::Tup(ts.iter().map(default_of).collect()),
        T::Opt(_) => V::Opt(0, None),
    }
}

/// Paths (child indices from the root) to every node satisfying `pred`, in pre-order.
pub fn paths(v: &V, t: &T, pred: &dyn Fn(&V, &T) -> bool) -> Vec<Vec<usize>> {
    fn go(v: &V, t: &T, pred: &dyn Fn(&V, &T) -> bool, cur: &mut Vec<usize>, out: &mut Vec<Vec<usize>>) {
        if pred(v, t) {
            out.push(cur.clone());
        }
        match (v, t) {
            (V::Arr(vs), T::Arr(_, e)) | (V::Vec(vs, _), T::Vec(e)) => {
                for (i, c) in vs.iter().enumerate() {
                    cur.push(i);
                    go(c, e, pred, cur, out);
                    cur.pop();
                }
            }
            (V::Tup(vs), T::Tup(ts)) => {
                for (i, (c, t)) in vs.iter().zip(ts).enumerate() {
                    cur.push(i);
                    go(c, t, pred, cur, out);
                    cur.pop();
                }
            }
            (V::Opt(_, Some(c)), T::Opt(e)) => {
                cur.push(0);
                go(c, e, pred, cur, out);
                cur.pop();
            }
            _ => {}
        }
    }
    let mut out = vec![];
    go(v, t, pred, &mut vec![], &mut out);
    out
}

pub fn get_mut<'a>(v: &'a mut V, t: &T, path: &[usize]) -> Option<(&'a mut V, T)> {
    if path.is_empty() {
        return Some((v, t.clone()));
    }
    let i = path[0];
    match (v, t) {
        (V::Arr(vs), T::Arr(_, e)) | (V::Vec(vs, _), T::Vec(e)) => get_mut(vs.get_mut(i)?, e, &path[1..]),
        (V::Tup(vs), T::Tup(ts)) => get_mut(vs.get_mut(i)?, ts.get(i)?, &path[1..]),
        (V::Opt(_, Some(c)), T::Opt(e)) if i == 0 => get_mut(c, e, &path[1..]),
        _ => None,
    }
}

/// All 128-bit fields of a decoded message (U128 leaves and 16-byte U8 arrays), for C07.
pub fn fields128(v: &V, out: &mut Vec<u128>) {
    match v {
        V::U128(x) => out.push(*x),
        V::Arr(vs) if vs.len() == 16 && vs.iter().all(|x| matches!(x, V::U8(_))) => {
            let mut b = [0u8; 16];
            for (i, x) in vs.iter().enumerate() {
                if let V::U8(y) = x {
                    b[i] = *y;
                }
            }
            out.push(u128::from_le_bytes(b));
            out.push(u128::from_be_bytes(b));
        }
        V::Arr(vs) | V::Tup(vs) | V::Vec(vs, _) => {
            for x in vs {
                fields128(x, out);
            }
        }
        V::Opt(_, Some(x)) => fields128(x, out),
        _ => {}
    }
}
