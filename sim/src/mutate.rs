//! Mutation classes applied to a corrupted party's outgoing messages: byte-level and
//! structure-aware (on the value tree decoded with the harness's own schema table).
use crate::schema::{self, T, V};
use rand::{Rng, RngCore};
use rand_chacha::ChaCha8Rng;
use serde::{Deserialize, Serialize};

#[derive(Clone, Debug, Serialize, Deserialize, PartialEq)]
pub enum LeafOp {
    /// bool leaf: 0 <-> 1
    FlipBool,
    /// bool leaf: write an invalid encoding
    BoolByte(u8),
    /// u128 leaf: xor with mask (little-endian bytes)
    XorU128(Vec<u8>),
    /// u8 leaf: xor with mask
    XorU8(u8),
    /// 16/32-byte array or Vec<u8>: xor first byte(s) with the mask
    XorBytes(Vec<u8>),
    /// Option: Some -> None
    SetNone,
    /// Option: None -> Some(default)
    SetSomeDefault,
    /// Option: None -> Some(value whose bools are true and whose integers are all ones)
    SetSomeOnes,
    /// Vec: change the element count, prefix kept consistent
    VecResize(i64),
    /// Vec: set to empty
    VecClear,
    /// Vec: overwrite the length prefix only (inconsistent)
    VecPrefix(u64),
}

#[derive(Clone, Debug, Serialize, Deserialize, PartialEq)]
pub enum MutSpec {
    FlipBit { pos: u64 },
    SetByte { pos: u64, val: u8 },
    Truncate { keep: u64 },
    TruncateTail { drop: u64 },
    Append { n: u64 },
    RandomSameLen,
    Empty,
    /// structure-aware: operate on the node at `path` of the decoded tree
    At { path: Vec<usize>, op: LeafOp },
    /// several structure-aware edits in one message
    Multi(Vec<(Vec<usize>, LeafOp)>),
    /// replace the message by exactly these bytes
    Bytes(Vec<u8>),
}

impl MutSpec {
    pub fn class(&self) -> String {
        match self {
            MutSpec::FlipBit { .. } => "flip_bit".into(),
            MutSpec::SetByte { .. } => "set_byte".into(),
            MutSpec::Truncate { .. } | MutSpec::TruncateTail { .. } => "truncate".into(),
            MutSpec::Append { .. } => "append".into(),
            MutSpec::RandomSameLen => "random_same_len".into(),
            MutSpec::Empty => "empty".into(),
            MutSpec::Bytes(_) => "bytes".into(),
            MutSpec::Multi(_) => "multi".into(),
            MutSpec::At { op, .. } => match op {
                LeafOp::FlipBool => "flip_bool",
                LeafOp::BoolByte(_) => "invalid_bool",
                LeafOp::XorU128(_) => "xor_u128",
                LeafOp::XorU8(_) => "xor_u8",
                LeafOp::XorBytes(_) => "xor_bytes",
                LeafOp::SetNone => "some_to_none",
                LeafOp::SetSomeDefault => "none_to_some",
                LeafOp::SetSomeOnes => "none_to_some_ones",
                LeafOp::VecResize(_) => "vec_resize",
                LeafOp::VecClear => "vec_clear",
                LeafOp::VecPrefix(_) => "vec_prefix",
            }
            .into(),
        }
    }
}

fn apply_leaf(v: &mut V, t: &T, op: &LeafOp) -> bool {
    match (v, op) {
        (V::Bool(b), LeafOp::FlipBool) => {
            *b = if *b == 0 { 1 } else { 0 };
            true
        }
        (V::Bool(b), LeafOp::BoolByte(x)) => {
            *b = *x;
            true
        }
        (V::U128(x), LeafOp::XorU128(m)) => {
            let mut mm = [0u8; 16];
            for (i, b) in m.iter().take(16).enumerate() {
                mm[i] = *b;
            }
            *x ^= u128::from_le_bytes(mm);
            true
        }
        (V::U8(x), LeafOp::XorU8(m)) => {
            *x ^= *m;
            true
        }
        (V::Arr(vs), LeafOp::XorBytes(m)) | (V::Vec(vs, _), LeafOp::XorBytes(m)) => {
            let mut any = false;
            for (i, b) in m.iter().enumerate() {
                if let Some(V::U8(x)) = vs.get_mut(i) {
                    *x ^= *b;
                    any = true;
                }
            }
            any
        }
        (V::Opt(tag, inner), LeafOp::SetNone) => {
            if inner.is_some() {
                *tag = 0;
                *inner = None;
                true
            } else {
                false
            }
        }
        (V::Opt(tag, inner), LeafOp::SetSomeDefault) => {
            if inner.is_none() {
                if let T::Opt(e) = t {
                    *tag = 1;
                    *inner = Some(Box::new(schema::default_of(e)));
                    return true;
                }
            }
            false
        }
        (V::Opt(tag, inner), LeafOp::SetSomeOnes) => {
            if inner.is_none() {
                if let T::Opt(e) = t {
                    fn ones(v: &mut V) {
                        match v {
                            V::Bool(b) => *b = 1,
                            V::U8(x) => *x = 0xff,
                            V::U32(x) => *x = u32::MAX,
                            V::U128(x) => *x = u128::MAX,
                            V::Arr(vs) | V::Tup(vs) | V::Vec(vs, _) => vs.iter_mut().for_each(ones),
                            _ => {}
                        }
                    }
                    let mut d = schema::default_of(e);
                    ones(&mut d);
                    *tag = 1;
                    *inner = Some(Box::new(d));
                    return true;
                }
            }
            false
        }
        (V::Vec(vs, l), LeafOp::VecResize(d)) => {
            let new = (vs.len() as i64 + d).max(0) as usize;
            if new == vs.len() {
                return false;
            }
            if let T::Vec(e) = t {
                while vs.len() < new {
                    let c = vs.last().cloned().unwrap_or_else(|| schema::default_of(e));
                    vs.push(c);
                }
                vs.truncate(new);
                *l = new as u64;
                return true;
            }
            false
        }
        (V::Vec(vs, l), LeafOp::VecClear) => {
            if vs.is_empty() {
                return false;
            }
            vs.clear();
            *l = 0;
            true
        }
        (V::Vec(_, l), LeafOp::VecPrefix(x)) => {
            *l = *x;
            true
        }
        _ => false,
    }
}

/// Apply a mutation to the bytes of a message with the given phase label.
/// Returns the bytes unchanged when the mutation is not applicable (callers check for that).
pub fn apply(m: &MutSpec, phase: &str, bytes: &[u8], _n: usize, rng: &mut ChaCha8Rng) -> Vec<u8> {
    let mut out = bytes.to_vec();
    match m {
        MutSpec::FlipBit { pos } => {
            if !out.is_empty() {
                let p = (*pos % (out.len() as u64 * 8)) as usize;
                out[p / 8] ^= 1 << (p % 8);
            }
        }
        MutSpec::SetByte { pos, val } => {
            if !out.is_empty() {
                let p = (*pos % out.len() as u64) as usize;
                out[p] = if out[p] == *val { val.wrapping_add(1) } else { *val };
            }
        }
        MutSpec::Truncate { keep } => out.truncate(*keep as usize),
        MutSpec::TruncateTail { drop } => {
            let k = out.len().saturating_sub(*drop as usize);
            out.truncate(k)
        }
        MutSpec::Append { n } => {
            for _ in 0..*n {
                out.push(rng.random());
            }
        }
        MutSpec::RandomSameLen => rng.fill_bytes(&mut out),
        MutSpec::Empty => out.clear(),
        MutSpec::Bytes(b) => out = b.clone(),
        MutSpec::At { path, op } => {
            if let (Some(t), Ok(mut v)) = (schema::msg_type(phase), schema::decode_msg(phase, bytes)) {
                if let Some((node, nt)) = schema::get_mut(&mut v, &t, path) {
                    apply_leaf(node, &nt, op);
                }
                out = schema::encode_msg(&v);
            }
        }
        MutSpec::Multi(edits) => {
            if let (Some(t), Ok(mut v)) = (schema::msg_type(phase), schema::decode_msg(phase, bytes)) {
                for (path, op) in edits {
                    if let Some((node, nt)) = schema::get_mut(&mut v, &t, path) {
                        apply_leaf(node, &nt, op);
                    }
                }
                out = schema::encode_msg(&v);
            }
        }
    }
    out
}

fn schema_len(v: &V, path: &[usize]) -> Option<usize> {
    let mut cur = v;
    for i in path {
        cur = match cur {
            V::Arr(vs) | V::Tup(vs) | V::Vec(vs, _) => vs.get(*i)?,
            V::Opt(_, Some(x)) if *i == 0 => x,
            _ => return None,
        };
    }
    match cur {
        V::Vec(vs, _) => Some(vs.len()),
        _ => None,
    }
}

fn pick3<X: Clone>(v: &[X], rng: &mut ChaCha8Rng) -> Vec<X> {
    // first, last, one random
    let mut out = vec![];
    if v.is_empty() {
        return out;
    }
    out.push(v[0].clone());
    if v.len() > 1 {
        out.push(v[v.len() - 1].clone());
    }
    if v.len() > 2 {
        out.push(v[rng.random_range(1..v.len() - 1)].clone());
    }
    out
}

/// The blind mutation catalogue for one message (C08 and C02): byte-level classes plus
/// structure-aware ones at sampled positions (first / last / random node of each kind).
pub fn catalogue(phase: &str, bytes: &[u8], rng: &mut ChaCha8Rng, huge_prefixes: bool) -> Vec<MutSpec> {
    let len = bytes.len() as u64;
    let mut out = vec![
        MutSpec::Empty,
        MutSpec::Truncate { keep: 1 },
        MutSpec::Truncate { keep: len / 2 },
        MutSpec::TruncateTail { drop: 1 },
        MutSpec::Append { n: 1 + rng.random_range(0..16) },
        MutSpec::RandomSameLen,
        MutSpec::FlipBit { pos: rng.random_range(0..(len * 8).max(1)) },
        MutSpec::FlipBit { pos: rng.random_range(0..64) },
        MutSpec::SetByte { pos: rng.random_range(0..len.max(1)), val: 0xff },
    ];
    let (Some(t), Ok(v)) = (schema::msg_type(phase), schema::decode_msg(phase, bytes)) else {
        return out;
    };
    let bools = schema::paths(&v, &t, &|v, _| matches!(v, V::Bool(_)));
    for p in pick3(&bools, rng) {
        out.push(MutSpec::At { path: p, op: LeafOp::FlipBool });
    }
    if let Some(p) = bools.first() {
        out.push(MutSpec::At { path: p.clone(), op: LeafOp::BoolByte(2) });
    }
    let u128s = schema::paths(&v, &t, &|v, _| matches!(v, V::U128(_)));
    for (i, p) in pick3(&u128s, rng).into_iter().enumerate() {
        let mask: Vec<u8> = if i == 0 {
            vec![1]
        } else {
            (0..16).map(|_| rng.random()).collect()
        };
        out.push(MutSpec::At { path: p, op: LeafOp::XorU128(mask) });
    }
    let arrs = schema::paths(&v, &t, &|v, t| {
        matches!((v, t), (V::Arr(_), T::Arr(k, e)) if (*k == 16 || *k == 32) && **e == T::U8)
    });
    for p in pick3(&arrs, rng) {
        out.push(MutSpec::At { path: p, op: LeafOp::XorBytes(vec![1 << rng.random_range(0..8)]) });
    }
    let bytevecs = schema::paths(&v, &t, &|v, t| {
        matches!((v, t), (V::Vec(vs, _), T::Vec(e)) if **e == T::U8 && !vs.is_empty())
    });
    for p in pick3(&bytevecs, rng) {
        out.push(MutSpec::At { path: p, op: LeafOp::XorBytes(vec![1 << rng.random_range(0..8)]) });
    }
    if bytevecs.len() > 1 {
        // every byte vector of the message emptied / cut to one byte at once
        out.push(MutSpec::Multi(bytevecs.iter().map(|p| (p.clone(), LeafOp::VecClear)).collect()));
        let cut: Vec<(Vec<usize>, LeafOp)> = bytevecs
            .iter()
            .filter_map(|p| match schema_len(&v, p) {
                Some(l) if l > 1 => Some((p.clone(), LeafOp::VecResize(1 - l as i64))),
                _ => None,
            })
            .collect();
        if !cut.is_empty() {
            out.push(MutSpec::Multi(cut));
        }
    }
    let u8s = schema::paths(&v, &t, &|v, t| matches!((v, t), (V::U8(_), T::U8)));
    if !u8s.is_empty() && arrs.is_empty() && bytevecs.is_empty() {
        for p in pick3(&u8s, rng) {
            out.push(MutSpec::At { path: p, op: LeafOp::XorU8(1 << rng.random_range(0..8)) });
        }
    }
    let somes = schema::paths(&v, &t, &|v, _| matches!(v, V::Opt(_, Some(_))));
    for p in pick3(&somes, rng) {
        out.push(MutSpec::At { path: p, op: LeafOp::SetNone });
    }
    let nones = schema::paths(&v, &t, &|v, _| matches!(v, V::Opt(_, None)));
    for p in pick3(&nones, rng).into_iter().take(2) {
        out.push(MutSpec::At { path: p.clone(), op: LeafOp::SetSomeDefault });
        out.push(MutSpec::At { path: p, op: LeafOp::SetSomeOnes });
    }
    // element counts at every nesting level
    let vecs = schema::paths(&v, &t, &|v, _| matches!(v, V::Vec(..)));
    let mut by_depth: std::collections::BTreeMap<usize, Vec<Vec<usize>>> = Default::default();
    for p in vecs {
        by_depth.entry(p.len()).or_default().push(p);
    }
    for (_, ps) in by_depth {
        for p in pick3(&ps, rng).into_iter().take(2) {
            out.push(MutSpec::At { path: p.clone(), op: LeafOp::VecResize(-1) });
            out.push(MutSpec::At { path: p.clone(), op: LeafOp::VecResize(1) });
            out.push(MutSpec::At { path: p.clone(), op: LeafOp::VecClear });
            if huge_prefixes {
                for x in [1u64 << 20, 1 << 40, 1 << 63, u64::MAX] {
                    out.push(MutSpec::At { path: p.clone(), op: LeafOp::VecPrefix(x) });
                }
            } else {
                out.push(MutSpec::At { path: p.clone(), op: LeafOp::VecPrefix(1 << 20) });
            }
        }
    }
    out
}
