#!/usr/bin/env python3
"""Mechanical sensitivity sweep: every guard of the form

    if <condition> { return Err(<error>); }

in the engine and the server core is disabled in turn (`if false && (<condition>)`), in a scratch
worktree of /repo's HEAD (/tmp/wt-mut, checked through POLYSIM_REPO), and the quick checks that
belong to the file are run. A mutant is 'detected' when some check exits 1. /repo is never touched.

usage: guard_mutants.py [--list] [--only <substring>] [--from <index>] [--to <index>]
results -> /verif/seeded/guard-mutants/results.json (merged over invocations)
"""
import json, os, re, subprocess, sys

WT = '/tmp/wt-mut'
OUT = '/verif/seeded/guard-mutants/results.json'
FILES = {
    'src/mpc/faand.rs': ['C04', 'C03', 'C08', 'C10', 'C02'],
    'src/mpc/protocol.rs': ['C03', 'C08', 'C18', 'C01', 'C02'],
    'src/mpc/garble.rs': ['C03', 'C08', 'C02'],
    'src/mpc/fpre.rs': ['C10', 'C08'],
    'src/ot_core/kos.rs': ['C04', 'C11', 'C08'],
    'src/ot_core/alsz.rs': ['C04', 'C11', 'C08'],
    'src/ot_core/chou_orlandi.rs': ['C04', 'C11', 'C08'],
    'src/ot.rs': ['C11', 'C04', 'C08'],
    'src/channel.rs': ['C08', 'C12', 'C01'],
    'src/utils/file_or_mem_buf.rs': ['C19', 'C01'],
    'crates/polytune-server-core/src/state.rs': ['C13', 'C14', 'C15', 'C16', 'C17'],
    'crates/polytune-server-core/src/policy.rs': ['C16', 'C13'],
    'crates/polytune-server-core/src/handle.rs': ['C13', 'C14', 'C15'],
}
PAT = re.compile(r'\bif ((?:(?!\blet\b)[^{};])+?)\{\s*return Err\(((?:[^;])+?)\);\s*\}', re.S)


def sh(cmd, **kw):
    return subprocess.run(cmd, shell=True, capture_output=True, text=True, **kw)


def mutants():
    head = sh('git -C /repo rev-parse HEAD').stdout.strip()
    out = []
    for f, checks in FILES.items():
        p = os.path.join('/repo', f)
        if not os.path.exists(p):
            continue
        s = sh(f'git -C /repo show {head}:{f}').stdout
        # only the non-test part
        cut = s.find('#[cfg(test)]')
        body = s if cut < 0 else s[:cut]
        for m in PAT.finditer(body):
            cond = m.group(1).strip()
            line = body.count('\n', 0, m.start()) + 1
            out.append({'file': f, 'line': line, 'cond': ' '.join(cond.split()), 'err': ' '.join(m.group(2).split()), 'span': (m.start(1), m.end(1)), 'checks': checks})
    for i, m in enumerate(out):
        m['id'] = f"g{i:03d}-{os.path.basename(m['file']).split('.')[0]}-{m['line']}"
    return out


def main():
    a = sys.argv[1:]
    ms = mutants()
    if '--list' in a:
        for m in ms:
            print(m['id'], m['file'], m['line'], '|', m['cond'][:90], '->', m['err'][:50])
        return
    only = a[a.index('--only') + 1] if '--only' in a else ''
    lo = int(a[a.index('--from') + 1]) if '--from' in a else 0
    hi = int(a[a.index('--to') + 1]) if '--to' in a else len(ms)
    os.makedirs(os.path.dirname(OUT), exist_ok=True)
    res = json.load(open(OUT)) if os.path.exists(OUT) else {}
    if not os.path.isdir(WT):
        sh(f'git -C /repo worktree add --detach {WT} HEAD')
    head = sh('git -C /repo rev-parse HEAD').stdout.strip()
    for i, m in enumerate(ms):
        if i < lo or i >= hi or only not in m['id']:
            continue
        sh(f'git -C {WT} checkout -q -- . ; git -C {WT} checkout -q --detach {head}')
        p = os.path.join(WT, m['file'])
        s = open(p).read()
        a0, a1 = m['span']
        s2 = s[:a0] + 'false && (' + s[a0:a1].rstrip() + ') ' + s[a1:]
        open(p, 'w').write(s2)
        r = {'file': m['file'], 'line': m['line'], 'guard': m['cond'], 'error': m['err'], 'checks': {}, 'detected': False}
        for c in m['checks']:
            log = f'/verif/out/guard-{m["id"]}-{c}.log'
            x = sh(f'POLYSIM_REPO={WT} /verif/check {c} quick > {log} 2>&1; echo $?')
            rc = int(x.stdout.strip() or 2)
            first = sh(f"grep -m1 '^violation' {log} | cut -c1-220").stdout.strip()
            r['checks'][c] = {'exit': rc, 'first': first}
            if rc == 1:
                r['detected'] = True
                os.remove(log)
                break
            if rc == 0:
                os.remove(log)
        res[m['id']] = r
        json.dump(res, open(OUT, 'w'), indent=1)
        print(m['id'], 'DETECTED' if r['detected'] else 'not detected', {c: v['exit'] for c, v in r['checks'].items()}, '|', m['cond'][:70], '->', m['err'][:40], flush=True)
    sh(f'git -C {WT} checkout -q -- .')


if __name__ == '__main__':
    main()
