#!/bin/bash
# try_seeded.sh <seeded-id> <check-id> [...]: apply the seeded patch to /repo, run the quick checks, undo.
id=$1; shift
git -C /repo apply /verif/seeded/$id/patch.diff || { echo "patch does not apply"; exit 2; }
for c in "$@"; do
  /verif/check $c quick > /verif/out/try-$id-$c.log 2>&1; rc=$?
  echo "seeded=$id check=$c exit=$rc $(grep -c '^VIOLATION' /verif/out/try-$id-$c.log) violation line(s): $(grep -m2 '^violation' /verif/out/try-$id-$c.log | cut -c1-300)"
done
git -C /repo checkout -- .
rm -f /verif/replays/*
