#!/bin/bash
# try_seeded.sh <seeded-id> <check-id> [...]: apply the seeded patch to a scratch worktree of /repo's
# HEAD (/tmp/wt-mut), run the quick checks against it (POLYSIM_REPO), undo. /repo is never touched.
id=$1; shift
wt=${TRY_WT:-/tmp/wt-try}
if [ ! -d $wt ]; then git -C /repo worktree add --detach $wt HEAD >/dev/null 2>&1 || exit 2; fi
git -C $wt checkout -q -- . ; git -C $wt checkout -q --detach $(git -C /repo rev-parse HEAD)
git -C $wt apply /verif/seeded/$id/patch.diff || { echo "patch does not apply"; exit 2; }
mkdir -p /verif/out
for c in "$@"; do
  POLYSIM_REPO=$wt /verif/check $c quick > /verif/out/try-$id-$c.log 2>&1; rc=$?
  echo "seeded=$id check=$c exit=$rc $(grep -c '^VIOLATION' /verif/out/try-$id-$c.log) violation line(s): $(grep -m2 '^violation' /verif/out/try-$id-$c.log | cut -c1-300)"
done
git -C $wt checkout -q -- .
