pub mod adversarial;
pub mod c02;
pub mod c03;
pub mod c04;
pub mod c07;
pub mod c08;
pub mod explore;
pub mod honest;
pub mod preproc;
pub mod srv;

use crate::framework::Check;

pub fn all() -> Vec<Box<dyn Check>> {
    vec![
        Box::new(honest::C01),
        Box::new(c02::C02),
        Box::new(c03::C03),
        Box::new(c04::C04),
        Box::new(explore::C05),
        Box::new(preproc::C06),
        Box::new(c07::C07),
        Box::new(c08::C08),
        Box::new(explore::C09),
        Box::new(preproc::C10),
        Box::new(preproc::C11),
        Box::new(honest::C12),
        Box::new(srv::C13),
        Box::new(srv::C14),
        Box::new(srv::C15),
        Box::new(srv::C16),
        Box::new(srv::C17),
        Box::new(explore::C18),
        Box::new(explore::C19),
    ]
}

pub fn by_id(id: &str) -> Option<Box<dyn Check>> {
    all().into_iter().find(|c| c.id() == id)
}
