#!/usr/bin/env python3
"""Regenerate /verif/MANIFEST.json from tools/checks.json (kept as data so the manifest stays valid)."""
import json, subprocess, sys
spec = json.load(open('/verif/tools/checks.json'))
hook_commits = subprocess.check_output(
    ['git', '-C', '/repo', 'log', '--format=%H %s', '--grep=^verif hook'], text=True).strip().splitlines()
checks = []
for c in spec['checks']:
    pid = c['id']
    checks.append({
        "property_id": pid,
        "quick_cmd": f"./check {pid} quick",
        "thorough_cmd": f"./check {pid} thorough",
        "evidence_file": f"/verif/evidence/{pid}.json",
        "replay_cmd_template": f"./check {pid} --replay {{path}}",
        "engine": c['engine'],
        "level_claimed": {"category": c['level'], "text": c['text'], "design_ref": c['design_ref']},
        "level_note": c['note'],
        "technique": c['technique'],
    })
m = {
    "version": 1,
    "setup_cmd": "cd /verif/sim && CARGO_NET_OFFLINE=true cargo build --release --offline",
    "hooks": {
        "guard": "cargo feature __verif (crates polytune, polytune-server-core and polytune-http-server)",
        "enable": "the harness crate /verif/sim depends on polytune and polytune-server-core by path (/repo) with features [\"__bench\", \"__verif\"]; RUSTFLAGS (in /verif/sim/.cargo/config.toml) add --cfg getrandom_backend=\"custom\" and --cfg tokio_unstable for the harness build only",
        "baseline_off_cmd": "cd /repo && cargo nextest run --workspace --no-fail-fast --tool-config-file pb:/w/lib/nextest.toml --profile pb --test-threads 8 --offline",
        "source_commits": [l.split()[0] for l in hook_commits],
        "add_only": True,
    },
    "engines": spec['engines'],
    "checks": checks,
    "notes": spec['notes'],
    "not_applicable": spec['not_applicable'],
}
json.dump(m, open('/verif/MANIFEST.json', 'w'), indent=1)
import jsonschema
jsonschema.validate(m, json.load(open('/root/.vp/MANIFEST.schema.json')))
print("MANIFEST.json written and valid;", len(checks), "checks,", len(m['not_applicable']), "not applicable")
