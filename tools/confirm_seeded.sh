#!/bin/bash
# Confirm seeded changes in ONE scratch worktree of /repo's HEAD (/tmp/wt-confirm, shared target dir):
# demo passes without the patch, fails with it, existing tests pass with it.
# usage: confirm_seeded.sh <id> [<id> ...]     (artifacts in /verif/seeded/<id>/: patch.diff, demo/*.rs)
export CARGO_NET_OFFLINE=true
wt=/tmp/wt-confirm
if [ ! -d $wt ]; then git -C /repo worktree add --detach $wt HEAD >/dev/null 2>&1 || exit 2; fi
cd $wt || exit 2
git checkout -q --detach $(git -C /repo rev-parse HEAD) 2>/dev/null
for id in "$@"; do
  src=/verif/seeded/$id
  log=$src/confirm.log
  : > $log
  git checkout -q -- .
  echo "base commit: $(git rev-parse --short HEAD)" >> $log
  # optional preparation of the scratch worktree (e.g. a dev-dependency feature the demo needs)
  [ -f $src/confirm.pre ] && bash $src/confirm.pre >> $log 2>&1
  pkg=polytune
  if grep -q "^+++ b/crates/polytune-server-core" $src/patch.diff || grep -qs "polytune_server_core" $src/demo/*.rs; then pkg=polytune-server-core; fi
  if grep -q "^+++ b/crates/polytune-http-server" $src/patch.diff; then pkg=polytune-http-server; fi
  demo=$(ls $src/demo/*.rs | head -1); name=$(basename $demo .rs)
  flags=""; [ -f $src/confirm.flags ] && flags=$(cat $src/confirm.flags)
  if [ "$pkg" = "polytune" ]; then tdir=tests; else tdir=crates/$pkg/tests; mkdir -p $tdir; fi
  if [ -f $src/confirm.incrate ]; then
    # demonstration is a #[cfg(test)] module inside the crate: "<parent file> <module dir> <test filter> [cargo flags]"
    read parent mdir filter iflags < $src/confirm.incrate
    mkdir -p $mdir; cp $demo $mdir/$name.rs; printf '\n#[cfg(test)]\nmod %s;\n' $name >> $parent
    runit() { nice cargo test --offline $iflags -p polytune --lib $filter -- --test-threads=2; }
    cleanup() { rm -f $mdir/$name.rs; git checkout -q -- $parent; }
  else
    cp $demo $tdir/$name.rs
    runit() { nice cargo test --offline $flags -p $pkg --test $name -- --test-threads=2; }
    cleanup() { rm -f $tdir/$name.rs; }
  fi
  echo "== demo WITHOUT patch (expect pass)" >> $log
  runit >> $log 2>&1; rc0=$?
  if ! git apply $src/patch.diff 2>>$log; then echo "RESULT id=$id patch does not apply" | tee -a $log; cleanup; continue; fi
  echo "== demo WITH patch (expect fail)" >> $log
  runit >> $log 2>&1; rc1=$?
  cleanup
  echo "== existing tests WITH patch (expect pass)" >> $log
  nice cargo test --offline -p polytune --lib >> $log 2>&1; t1=$?
  nice cargo test --offline -p polytune --test protocol -- --skip eval_mixed_circuits --skip eval_garble_prg_3pc >> $log 2>&1; t2=$?
  nice cargo test --offline -p polytune-server-core >> $log 2>&1; t3=$?
  t4=0
  if git diff --name-only | grep -q "crates/"; then nice cargo test --offline -p polytune-http-server >> $log 2>&1; t4=$?; fi
  git checkout -q -- .
  echo "RESULT id=$id demo_without=$rc0 demo_with=$rc1 lib=$t1 protocol=$t2 server_core=$t3 http=$t4" | tee -a $log
  if [ $rc0 = 0 ] && [ $rc1 != 0 ] && [ $t1 = 0 ] && [ $t2 = 0 ] && [ $t3 = 0 ] && [ $t4 = 0 ]; then echo "CONFIRMED $id" | tee -a $log; else echo "NOT-CONFIRMED $id" | tee -a $log; fi
done
