//! C07: a party's global key stays secret, in honest runs and under attack.
use crate::checks::adversarial::*;
use crate::checks::c04;
use crate::checks::honest::gen_honest;
use crate::entropy;
use crate::framework::{CaseCx, CaseOut, Check, Tier, Violation};
use crate::mpcrun::{self, AdvMode, MpcRun, MpcSpec};
use crate::mutate::{self, MutSpec};
use crate::schema::{self, V};
use crate::sim::FaultKind;
use rand::Rng;
use serde_json::{Value, json};
use std::collections::HashSet;

pub struct C07;

pub fn key_of(run: &MpcRun, p: usize) -> Option<u128> {
    run.res.probes[p]
        .iter()
        .find(|x| x.site == "delta" && x.data.len() == 16)
        .map(|x| u128::from_le_bytes(x.data[..16].try_into().unwrap()))
}

/// Messages that no real execution contains: the scripted adversary's replayed messages from the
/// point where what it received differs from the reference run (they were computed from the other
/// run's data), and, causally, everything an honest party sends after it consumed such a message.
/// Pooling them with this run's messages would pool two executions with the same secrets.
pub fn counterfactual_set(run: &MpcRun) -> Vec<bool> {
    let tr = &run.res.transcript;
    let mut tainted: Vec<bool> = tr.iter().map(|m| m.counterfactual).collect();
    if !tainted.iter().any(|t| *t) {
        return tainted;
    }
    let n = run.res.ends.len();
    let mut taint_at = vec![u64::MAX; n];
    // (ord, is_recv, party, transcript index)
    let mut ops: Vec<(u64, bool, usize, usize)> = tr.iter().enumerate().map(|(i, m)| (m.ord, false, m.from, i)).collect();
    ops.extend(run.res.recvs.iter().map(|r| (r.ord, true, r.party, r.tr)));
    ops.sort();
    for (ord, is_recv, p, i) in ops {
        if is_recv {
            if tainted[i] && ord < taint_at[p] {
                taint_at[p] = ord;
            }
        } else if ord > taint_at[p] {
            tainted[i] = true;
        }
    }
    tainted
}

/// The choice bits of the base OTs are the bits of the global key (the OT-extension sender is the
/// base-OT receiver). Each of its points R_i = c_i*S + x_i*B must be blinded by a fresh x_i: for no
/// two indices may R_i - R_j be 0, S or -S (that would tell whether c_i = c_j, i.e. the key up to
/// complement). S is the point the peer sent just before.
pub fn base_ot_points_unlinkable(spec: &MpcSpec, run: &MpcRun) -> (Vec<Violation>, u64) {
    use curve25519_dalek::ristretto::CompressedRistretto;
    let mut v = vec![];
    let mut tested = 0u64;
    let honest = honest_parties(spec);
    let pt = |b: &[u8]| -> Option<curve25519_dalek::ristretto::RistrettoPoint> { CompressedRistretto::from_slice(b).ok()?.decompress() };
    for (mi, m) in run.res.transcript.iter().enumerate() {
        if m.phase != "CO_OT_r" || !honest.contains(&m.from) {
            continue;
        }
        let Some(sm) = run.res.transcript[..mi].iter().rev().find(|x| x.phase == "CO_OT_s" && x.from == m.to && x.to == m.from) else { continue };
        let Ok(V::Vec(sb, _)) = schema::decode_msg("CO_OT_s", &sm.data) else { continue };
        let sbytes: Vec<u8> = sb.iter().map(|b| if let V::U8(x) = b { *x } else { 0 }).collect();
        let Some(s) = pt(&sbytes) else { continue };
        let Ok(V::Vec(rs, _)) = schema::decode_msg("CO_OT_r", &m.data) else { continue };
        let mut pts = vec![];
        for r in &rs {
            if let V::Vec(bs, _) = r {
                let bytes: Vec<u8> = bs.iter().map(|b| if let V::U8(x) = b { *x } else { 0 }).collect();
                if let Some(p) = pt(&bytes) {
                    pts.push(p);
                }
            }
        }
        if pts.len() < 2 {
            continue;
        }
        tested += 1;
        let mut seen: std::collections::HashMap<[u8; 32], usize> = std::collections::HashMap::new();
        for (i, p) in pts.iter().enumerate() {
            let mut hit = None;
            for (what, q) in [("equal to", *p), ("S away from", p + s), ("-S away from", p - s)] {
                if let Some(j) = seen.get(q.compress().as_bytes()) {
                    hit = Some((what, *j));
                    break;
                }
            }
            if let Some((what, j)) = hit {
                v.push(mk_violation(
                    "base-ot-choice-bits-linkable",
                    "base-ot-choice-bits-linkable".into(),
                    format!(
                        "party {}: in its 'CO_OT_r' message to party {} (message #{} of the link) point #{i} is {what} point #{j}: whether the two choice bits - bits of its global key - are equal can be read off the wire",
                        m.from, m.to, m.idx
                    ),
                    spec,
                ));
                break;
            }
            seen.insert(*p.compress().as_bytes(), i);
        }
    }
    (v, tested)
}

/// XOR-set search for the global key of every honest party in everything that was sent.
pub fn c07_oracle(spec: &MpcSpec, run: &MpcRun, triple_budget: usize) -> (Vec<Violation>, u64, u64) {
    let mut v = vec![];
    let honest = honest_parties(spec);
    let what = describe_fault(spec);
    // all 16-byte windows, both byte orders, remembering one origin each
    let mut windows: HashSet<u128> = HashSet::new();
    let mut fields: Vec<u128> = vec![];
    let mut total_bytes = 0u64;
    let cf = counterfactual_set(run);
    for (mi, m) in run.res.transcript.iter().enumerate() {
        if cf[mi] {
            continue;
        }
        let d = &m.data;
        total_bytes += d.len() as u64;
        if d.len() >= 16 {
            for i in 0..=(d.len() - 16) {
                let w: [u8; 16] = d[i..i + 16].try_into().unwrap();
                windows.insert(u128::from_le_bytes(w));
                windows.insert(u128::from_be_bytes(w));
            }
        }
        if let Ok(val) = schema::decode_msg(&m.phase, d) {
            schema::fields128(&val, &mut fields);
        }
    }
    fields.sort_unstable();
    fields.dedup();
    fields.retain(|f| *f != 0);
    let fset: HashSet<u128> = fields.iter().copied().collect();
    let locate = |x: u128| -> String {
        for (mi, m) in run.res.transcript.iter().enumerate() {
            let d = &m.data;
            if d.len() < 16 || cf[mi] {
                continue;
            }
            for i in 0..=(d.len() - 16) {
                let w: [u8; 16] = d[i..i + 16].try_into().unwrap();
                if u128::from_le_bytes(w) == x || u128::from_be_bytes(w) == x {
                    return format!("'{}' {}->{} (message #{} of the link) offset {}", m.phase, m.from, m.to, m.idx, i);
                }
            }
        }
        "?".into()
    };
    let mut lookups = 0u64;
    // "the evaluator holds exactly one label per wire and garbler": with the labels it holds for a
    // gate it opens exactly one of the four rows (probed inside the engine with its own decryption)
    for &h in &honest {
        if let Some(pr) = run.res.probes[h].iter().find(|x| x.site == "eval_row_sibling_opened" && x.data.len() >= 16) {
            let w = u64::from_le_bytes(pr.data[..8].try_into().unwrap());
            let row = u64::from_le_bytes(pr.data[8..16].try_into().unwrap());
            v.push(mk_violation(
                "evaluator-opens-a-second-row",
                "evaluator-opens-a-second-row".into(),
                format!("evaluator {h}: the two labels it holds for the AND gate at instruction {w} also open row {row} of that gate (a second label of the output wire; together with the first one, the garbler's global key) [{what}]"),
                spec,
            ));
        }
    }
    for &h in &honest {
        let Some(delta) = key_of(run, h) else { continue };
        if delta == 0 {
            continue;
        }
        let phase = phase_of_fault(run);
        if windows.contains(&delta) {
            v.push(mk_violation(
                "global-key-on-the-wire",
                format!("key-verbatim:{}", locate(delta).split(' ').next().unwrap_or("")),
                format!("party {h}'s global key appears verbatim in {} [{what}]", locate(delta)),
                spec,
            ));
            continue;
        }
        let mut hit2 = None;
        for x in &windows {
            lookups += 1;
            if *x != 0 && windows.contains(&(x ^ delta)) {
                hit2 = Some(*x);
                break;
            }
        }
        if let Some(x) = hit2 {
            let (a, b) = (locate(x), locate(x ^ delta));
            let pa = a.split('\'').nth(1).unwrap_or("").to_string();
            let pb = b.split('\'').nth(1).unwrap_or("").to_string();
            let mut ps = [pa, pb];
            ps.sort();
            v.push(mk_violation(
                "global-key-as-xor-of-two-values",
                // a leak the victim notices right afterwards (it aborts) and one it never notices are
                // different findings
                format!("key-xor2:{}+{}{}", ps[0], ps[1], if matches!(run.res.ends[h], crate::sim::End::Ok(_)) { ":victim-finishes-ok" } else { "" }),
                format!("party {h}'s global key equals the XOR of the 128-bit value in {a} and the one in {b} [{what}]"),
                spec,
            ));
            continue;
        }
        // three decoded fields
        let mut budget = triple_budget;
        'outer: for (i, a) in fields.iter().enumerate() {
            for b in fields.iter().skip(i + 1) {
                if budget == 0 {
                    break 'outer;
                }
                budget -= 1;
                lookups += 1;
                let c = a ^ b ^ delta;
                if c != *a && c != *b && fset.contains(&c) {
                    v.push(mk_violation(
                        "global-key-as-xor-of-three-values",
                        format!("key-xor3:{phase}"),
                        format!("party {h}'s global key equals the XOR of three transmitted 128-bit fields: {}, {}, {} [{what}]", locate(*a), locate(*b), locate(c)),
                        spec,
                    ));
                    break 'outer;
                }
            }
        }
    }
    (v, total_bytes, lookups)
}

impl Check for C07 {
    fn id(&self) -> &'static str {
        "C07"
    }
    fn level(&self) -> &'static str {
        "fault_enumeration"
    }
    fn rule(&self) -> String {
        "two kinds of evaluation: (a) honest simulated runs (circuits with NOT gates, all roles, n in 2..4); (b) attacked runs: every must-detect and optional deviation of the C04 catalogue (message deviations with the scripted adversary that never stops, self-consistent lies with the live adversary + taps) the structure-aware mutations of the online-phase messages, one per run, and a seeded swarm of multi-edit runs. Every single-message deviation is run twice: with the scripted adversary (keeps going whatever happens) and with the live adversary (real code on the corrupted side, so everything it transmits is computed from what it holds in this run). After each run everything sent by anyone is pooled, except counterfactual messages: what the scripted adversary replays after the honest parties' answers to it differ from the reference run (computed from another execution with the same secrets - a rewinding adversary, which the statement does not cover) and, causally, whatever honest parties send after consuming such a message; for every honest party h with probed global key D: D appears at no byte offset in either byte order; no two 16-byte windows (all offsets, both orders) XOR to D; no three decoded 128-bit fields XOR to D (pair budget per run: 3e5 in quick, 3e6 in thorough, which is exhaustive for the small configurations). With trusted-dealer preprocessing (n in 3..5) the keys a party holds for its different peers are pairwise different (one key for two peers makes the XOR of their MACs the global key). In the honest runs the points of every base-OT receiver message (the choice bits are the bits of the global key) are tested for linkability: for no two indices may R_i - R_j be 0, S or -S. In every run the engine itself reports (probe) whether the labels the evaluator holds for an AND gate open any of the three other rows of that gate; none may. The oracle is applied whatever the outcome of the run (a leak followed by an abort is a leak). distinct = (configuration, deviation) hash".into()
    }
    fn assumptions(&self) -> Vec<String> {
        vec![
            "secrecy in the operational form of the statement (absence of the key in XOR-closed form of <= 3 transmitted values), not indistinguishability".into(),
            "single corrupted party, one deviation per run".into(),
        ]
    }
    fn cases(&self, tier: Tier, seed: u64) -> Vec<Value> {
        let (h, a) = match tier {
            Tier::Quick => (16, 8),
            Tier::Thorough => (120, 40),
        };
        let budget = if tier == Tier::Quick { 300_000 } else { 3_000_000 };
        let mut v: Vec<Value> = (0..h).map(|k| json!({"seed": seed, "kind": "honest", "k": k, "budget": budget})).collect();
        for k in 0..a {
            for sh in 0..4 {
                v.push(json!({"seed": seed, "kind": "attack", "k": k, "shard": sh, "budget": budget}));
            }
        }
        // trusted-dealer preprocessing, n in 3..5: independent keys per peer
        for k in 0..(if tier == Tier::Quick { 3 } else { 30 }) {
            v.push(json!({"seed": seed, "kind": "dealer", "k": k}));
        }
        v
    }
    fn run_case(&self, case: &Value, cx: &CaseCx) -> CaseOut {
        let mut out = CaseOut::default();
        let seed = case["seed"].as_u64().unwrap();
        let k = case["k"].as_u64().unwrap();
        let budget = case["budget"].as_u64().unwrap_or(0) as usize;
        if case["kind"] == "dealer" {
            let mut rng = entropy::rng(seed, 0xc07d, k);
            let n = 3 + (k as usize) % 3;
            let spec = crate::checks::preproc::PreSpec {
                n,
                l: [3usize, 17, 40][rng.random_range(0..3)],
                ands: [0usize, 2, 6][rng.random_range(0..3)],
                dealer: true,
                cap: 0,
                seed: rng.random(),
                sched: crate::sim::SchedSpec { strategy: crate::sim::Strategy::Uniform, seed: rng.random(), explicit: vec![] },
                equivocate: None,
                dealer_cheater: None,
                dealer_cheater_zero_macs: false,
            };
            cx.begin(&json!({"dealer_keys": spec}));
            let (v, steps, _) = crate::checks::preproc::c10_run(&spec);
            out.evals += 1;
            out.sim_steps += steps;
            out.count("trusted_dealer_runs_checked_for_independent_keys", 1);
            out.distinct.push(entropy::mix(n as u64, 0xdea1e7, spec.seed));
            out.violations.extend(v.into_iter().filter(|x| x.class == "same-key-for-several-peers").map(|mut x| {
                x.spec = json!({"dealer_keys": spec});
                x
            }));
            return out;
        }
        if case["kind"] == "honest" {
            for j in 0..6u64 {
                let mut rng = entropy::rng(seed, 0xc07, k * 6 + j);
                let n = [2, 3, 3, 4][rng.random_range(0..4)];
                let (a, o) = (rng.random_range(1..10), rng.random_range(4..14));
                let mut spec = gen_honest(&mut rng, n, a, o, &[0, 1]);
                spec.tmp = vec![false; n];
                cx.begin(&serde_json::to_value(&spec).unwrap());
                let run = mpcrun::run(&spec, None);
                out.evals += 1;
                out.sim_steps += run.res.steps;
                let (v, bytes, lookups) = c07_oracle(&spec, &run, budget);
                let (v2, tested) = base_ot_points_unlinkable(&spec, &run);
                out.violations.extend(v2);
                out.count("base_ot_receiver_messages_tested_for_linkable_points", tested);
                out.count("bytes_pooled", bytes);
                out.count("xor_lookups", lookups);
                out.count("honest_runs", 1);
                out.distinct.push(entropy::fnv(0, serde_json::to_string(&spec.circ).unwrap().as_bytes()) ^ spec.seed);
                out.violations.extend(v);
            }
            return out;
        }
        let shard = case["shard"].as_u64().unwrap();
        let n = if k % 2 == 0 { 2 } else { 3 };
        let cfg = gen_attack_cfg(seed, 700 + k, n, (k / 2) % 2 == 0, 1 + (k % 3) as usize);
        let r = reference(&cfg);
        if !r.ok {
            out.violations.push(Violation { class: "harness-error".into(), detail: format!("reference run failed: {:?}", r.ends), key: "reference".into(), spec: Value::Null });
            return out;
        }
        let mut specs: Vec<(String, MpcSpec)> = c04::deviations(&cfg, &r, seed).into_iter().map(|d| (d.kind, d.spec)).collect();
        // structure-aware mutations of the online phase
        let mut rng = entropy::rng(seed, 0xc07a, cfg.base.seed);
        for s in sites(&r.run, cfg.c) {
            if !matches!(s.phase.as_str(), "wire shares" | "masked inputs" | "labels" | "output wire shares" | "lambda" | "preprocessed gates") {
                continue;
            }
            let m = &r.run.transcript[s.tr];
            for mu in mutate::catalogue(&s.phase, &m.data, &mut rng, false) {
                if matches!(mu, MutSpec::At { .. }) {
                    specs.push((format!("online:{}:{}", s.phase, mu.class()), attacked_spec(&cfg, AdvMode::Scripted, vec![fault_at(cfg.c, &s, FaultKind::Mutate(mu))], vec![], None, &r.decisions)));
                }
            }
        }
        for sp in random_multi_faults(&cfg, &r, seed, if budget > 1_000_000 { 400 } else { 80 }) {
            specs.push(("swarm:multi-fault".into(), sp));
        }
        // every single-message deviation of the scripted adversary also with the live adversary: the
        // scripted one never stops but its messages after the honest parties' answers change are
        // counterfactual (excluded from the pool); the live one computes everything it sends from what
        // it really holds in this run (it may abort on its own inconsistency)
        let live: Vec<(String, MpcSpec)> = specs
            .iter()
            .filter(|(_, s)| matches!(s.adversary, Some((_, AdvMode::Scripted))) && s.taps.is_empty() && !s.faults.is_empty())
            .map(|(k, s)| {
                let mut s = s.clone();
                s.adversary = s.adversary.map(|(c, _)| (c, AdvMode::Live));
                (format!("{k}:live"), s)
            })
            .collect();
        specs.extend(live);
        for (i, (kind, spec)) in specs.into_iter().enumerate() {
            if i as u64 % 4 != shard {
                continue;
            }
            cx.begin(&serde_json::to_value(&spec).unwrap());
            let run = run_attack(&spec, Some(r.run.clone()));
            out.evals += 1;
            out.sim_steps += run.res.steps;
            out.merge_fired(&run.res.fired);
            let effective = if spec.taps.is_empty() { fault_effective(&run) } else { run.res.tap_fired > 0 };
            if !effective {
                out.count("fault_without_effect", 1);
                continue;
            }
            let honest = honest_parties(&spec);
            if honest.iter().any(|h| matches!(run.res.ends[*h], crate::sim::End::Ok(_))) {
                out.count("attacked_runs_with_an_honest_ok", 1);
            }
            out.count("attacked_runs", 1);
            out.distinct.push(entropy::fnv(0, serde_json::to_string(&(&spec.faults, &spec.taps, cfg.base.seed)).unwrap().as_bytes()));
            let (v, bytes, lookups) = c07_oracle(&spec, &run, budget);
            out.count("bytes_pooled", bytes);
            out.count("xor_lookups", lookups);
            out.count("counterfactual_messages_excluded", counterfactual_set(&run).iter().filter(|t| **t).count() as u64);
            out.count(if matches!(spec.adversary, Some((_, AdvMode::Live))) { "attacked_runs_live_adversary" } else { "attacked_runs_scripted_adversary" }, 1);
            out.violations.extend(v);
            if out.samples.is_empty() {
                out.samples.push(json!({"configuration": cfg.base.sample(), "corrupted": cfg.c, "deviation": kind, "fault": describe_fault(&spec),
                    "results": run.res.ends.iter().map(|e| e.summary()).collect::<Vec<_>>(), "bytes_pooled": bytes}));
            }
        }
        out
    }
    fn replay(&self, spec: &Value) -> Vec<Violation> {
        if let Some(d) = spec.get("dealer_keys") {
            return match serde_json::from_value::<crate::checks::preproc::PreSpec>(d.clone()) {
                Ok(s) => crate::checks::preproc::c10_run(&s).0.into_iter().filter(|x| x.class == "same-key-for-several-peers").map(|mut x| {
                    x.spec = spec.clone();
                    x
                }).collect(),
                Err(_) => vec![],
            };
        }
        let Some(spec) = parse_spec(spec) else { return vec![] };
        let run = run_attack(&spec, None);
        let mut v = c07_oracle(&spec, &run, usize::MAX / 2).0;
        if spec.adversary.is_none() {
            v.extend(base_ot_points_unlinkable(&spec, &run).0);
        }
        v
    }
}
