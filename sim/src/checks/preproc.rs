//! C10 (preprocessing output relations), C11 (OT extension correlation for every length),
//! C06 (fresh, unbiased, private input masks).
use crate::checks::honest::gen_honest;
use crate::circ::{self, CircSpec};
use crate::entropy;
use crate::framework::{CaseCx, CaseOut, Check, Tier, Violation};
use crate::mpcrun::{self, MpcSpec};
use crate::schema::{self, V};
use crate::mutate::MutSpec;
use crate::sim::{self, End, Fault, FaultKind, RunCfg, SchedSpec, Sel, SimChannel, Strategy, Task, TaskOut};
use polytune::bench_reexports::{Block, kos_ot_receiver, kos_ot_sender};
use polytune::verif::{self as pv, PlainShare};
use rand::{Rng, RngCore, SeedableRng};
use rand_chacha::{ChaCha8Rng, ChaCha20Rng};
use serde::{Deserialize, Serialize};
use serde_json::{Value, json};
use std::collections::{BTreeMap, BTreeSet};
use std::future::Future;
use std::pin::Pin;
use std::sync::Arc;

fn viol(class: &str, key: &str, detail: String, spec: &Value) -> Violation {
    Violation {
        class: class.into(),
        detail,
        key: key.into(),
        spec: spec.clone(),
    }
}

fn sched(rng: &mut ChaCha8Rng, n: usize) -> SchedSpec {
    SchedSpec {
        strategy: crate::checks::honest::gen_strategy(rng, n),
        seed: rng.random(),
        explicit: vec![],
    }
}

// ---------------------------------------------------------------------------------------------
// C11

#[derive(Clone, Debug, Serialize, Deserialize)]
pub struct OtSpec {
    pub len: usize,
    /// 0: node 0 sends then receives, node 1 mirrors (as fabitn); 1: the other way round; 2: one session only
    pub order: u8,
    pub choice_mode: u8,
    pub corr_mode: u8,
    pub cap: usize,
    pub seed: u64,
    pub sched: SchedSpec,
}

struct OtTask {
    spec: OtSpec,
}

fn ot_inputs(spec: &OtSpec, node: usize) -> (Vec<bool>, Vec<u128>) {
    let mut rng = entropy::rng(spec.seed, 0x07a, node as u64);
    let bits: Vec<bool> = (0..spec.len)
        .map(|_| match spec.choice_mode {
            0 => false,
            1 => true,
            _ => rng.random(),
        })
        .collect();
    let c0: u128 = rng.random();
    let corr: Vec<u128> = (0..spec.len).map(|_| if spec.corr_mode == 0 { c0 } else { rng.random() }).collect();
    (bits, corr)
}

impl Task for OtTask {
    fn run<'a>(&'a self, p: usize, ch: &'a SimChannel) -> Pin<Box<dyn Future<Output = TaskOut> + 'a>> {
        Box::pin(async move {
            let (bits, corr) = ot_inputs(&self.spec, p);
            let deltas: Vec<Block> = corr.iter().map(|c| Block::from(c.to_be_bytes())).collect();
            let mut shared = ChaCha20Rng::seed_from_u64(self.spec.seed ^ 0x5a5a);
            let peer = 1 - p;
            let e = |e| format!("{e:?}");
            let sender_first = match self.spec.order {
                0 => p == 0,
                1 => p == 1,
                _ => p == 0,
            };
            let (mut sent, mut recvd): (Vec<u128>, Vec<u128>) = (vec![], vec![]);
            if self.spec.order == 2 {
                if p == 0 {
                    sent = kos_ot_sender(ch, &deltas, peer, &mut shared).await.map_err(e)?;
                } else {
                    recvd = kos_ot_receiver(ch, &bits, peer, &mut shared).await.map_err(e)?;
                }
            } else if sender_first {
                sent = kos_ot_sender(ch, &deltas, peer, &mut shared).await.map_err(e)?;
                recvd = kos_ot_receiver(ch, &bits, peer, &mut shared).await.map_err(e)?;
            } else {
                recvd = kos_ot_receiver(ch, &bits, peer, &mut shared).await.map_err(e)?;
                sent = kos_ot_sender(ch, &deltas, peer, &mut shared).await.map_err(e)?;
            }
            let tail: u64 = shared.next_u64();
            Ok(Box::new((sent, recvd, tail)) as Box<dyn std::any::Any + Send>)
        })
    }
}

fn c11_run(spec: &OtSpec) -> (Vec<Violation>, u64) {
    let sv = serde_json::to_value(spec).unwrap();
    let mut cfg = RunCfg::honest(2, spec.cap, spec.seed, spec.sched.clone());
    cfg.max_steps = 1_000_000;
    let res = sim::run(&cfg, Arc::new(OtTask { spec: spec.clone() }));
    let mut v = vec![];
    if let Some(d) = &res.deadlock {
        v.push(viol("deadlock", "deadlock", d.clone(), &sv));
        return (v, res.steps);
    }
    let mut outs = vec![];
    for (p, e) in res.ends.iter().enumerate() {
        match e {
            End::Ok(b) => match b.downcast_ref::<(Vec<u128>, Vec<u128>, u64)>() {
                Some(x) => outs.push(x.clone()),
                None => v.push(viol("harness-error", "downcast", "task output".into(), &sv)),
            },
            other => v.push(viol("ot-session-failed", &format!("ot-session-failed:{}", other.kind()), format!("node {p} ended with {} (len={}, order={})", other.summary(), spec.len, spec.order), &sv)),
        }
    }
    if outs.len() != 2 {
        return (v, res.steps);
    }
    let sessions: Vec<(usize, usize)> = if spec.order == 2 { vec![(0, 1)] } else { vec![(0, 1), (1, 0)] };
    for (s, r) in sessions {
        let (_, corr) = ot_inputs(spec, s);
        let (bits, _) = ot_inputs(spec, r);
        let (sent, recvd) = (&outs[s].0, &outs[r].1);
        if sent.len() != spec.len || recvd.len() != spec.len {
            v.push(viol(
                "wrong-length",
                "wrong-length",
                format!("session {s}->{r}: requested {} OTs, sender returned {}, receiver {}", spec.len, sent.len(), recvd.len()),
                &sv,
            ));
            continue;
        }
        if let Some(i) = (0..spec.len).find(|i| recvd[*i] != sent[*i] ^ if bits[*i] { corr[*i] } else { 0 }) {
            v.push(viol(
                "wrong-correlation",
                "wrong-correlation",
                format!("session {s}->{r}, len {}: index {i}: receiver has {:032x}, sender's zero message {:032x}, choice {}, correlation {:032x}", spec.len, recvd[i], sent[i], bits[i], corr[i]),
                &sv,
            ));
        }
    }
    if outs[0].2 != outs[1].2 {
        v.push(viol("shared-randomness-out-of-step", "shared-randomness-out-of-step", format!("after the sessions the two sides' shared generators differ (len {}, order {})", spec.len, spec.order), &sv));
    }
    (v, res.steps)
}

/// One KOS session, honest sender (node 0) against a receiver (node 1, scripted) that sends an
/// empty - or one-row-short - OT-extension matrix and answers the consistency check with zeros.
/// With Q = 0 the check equation holds for any coefficients; the sender must refuse the matrix.
pub fn kos_short_matrix_attack(spec: &OtSpec, one_short: bool) -> (Vec<Violation>, u64) {
    let sv = json!({"kos_matrix": spec, "one_short": one_short});
    let mut v = vec![];
    let mut cfg = RunCfg::honest(2, spec.cap, spec.seed, spec.sched.clone());
    cfg.max_steps = 1_000_000;
    cfg.record_events = true;
    let reference = sim::run(&cfg, Arc::new(OtTask { spec: spec.clone() }));
    cfg.record_events = false;
    let mut steps = reference.steps;
    if !reference.ends.iter().all(|e| matches!(e, End::Ok(_))) {
        v.push(viol("harness-error", "kos-matrix-reference", "honest OT session failed".into(), &sv));
        return (v, steps);
    }
    let zero_answer = schema::encode_msg(&V::Vec(vec![V::Tup(vec![V::Arr(vec![V::U8(0); 16]), V::Arr(vec![V::U8(0); 16]), V::Arr(vec![V::U8(0); 16])])], 1));
    let sel = |phase: &str| Sel { from: 1, to: 0, idx: None, phase: Some(phase.into()), occ: Some(0) };
    cfg.faults = vec![
        Fault { sel: sel("ALSZ_OT_setup"), kind: FaultKind::Mutate(MutSpec::At { path: vec![], op: if one_short { crate::mutate::LeafOp::VecResize(-1) } else { crate::mutate::LeafOp::VecClear } }) },
        Fault { sel: sel("KOS_OT_x_t0_t1"), kind: FaultKind::Mutate(MutSpec::Bytes(zero_answer)) },
    ];
    cfg.scripted = Some((1, reference.reference()));
    let res = sim::run(&cfg, Arc::new(OtTask { spec: spec.clone() }));
    steps += res.steps;
    if res.fired.values().sum::<u64>() == 0 {
        v.push(viol("harness-error", "kos-matrix-not-fired", "the altered messages were never sent".into(), &sv));
        return (v, steps);
    }
    match &res.ends[0] {
        End::Ok(_) => v.push(viol(
            "cheating-not-detected",
            &format!("cheating-not-detected:kos-session:{}-matrix+zero-check-answer", if one_short { "one-row-short" } else { "empty" }),
            format!("the honest KOS sender accepted an OT-extension matrix with {} rows together with an all-zero check answer and returned keys (len={})", if one_short { "127" } else { "no" }, spec.len),
            &sv,
        )),
        End::Panic(m) => v.push(viol("panic", "panic:kos-session", format!("the honest KOS sender panicked: {m}"), &sv)),
        _ => {}
    }
    (v, steps)
}

pub struct C11;

fn c11_lengths(tier: Tier) -> Vec<usize> {
    let mut s: BTreeSet<usize> = (1..=40).collect();
    let kmax = if tier == Tier::Quick { 6 } else { 32 };
    for k in 1..=kmax {
        for d in [-1i64, 0, 1] {
            s.insert((8 * k as i64 + d) as usize);
            s.insert((128 * k as i64 + d) as usize);
        }
    }
    // every residue of the leftover-column handling of the transpose (len % 128 in 80..104) and one
    // batch whose messages exceed 1 MiB (the engine's largest: 2^16 + 2^10 OTs is still common)
    s.extend(80..=104);
    s.insert(66_600);
    if tier == Tier::Thorough {
        s.insert(4095);
        s.insert(4096);
        s.extend(200..=360);
        s.insert(131_200);
        s.insert(300_001);
    }
    s.into_iter().collect()
}

impl Check for C11 {
    fn id(&self) -> &'static str {
        "C11"
    }
    fn level(&self) -> &'static str {
        "exploration"
    }
    fn rule(&self) -> String {
        "each evaluation is one simulated two-node execution of the real KOS correlated-OT sender and receiver (base OTs, ALSZ extension, consistency check) over the simulated link: lengths 1..40, 80..104 (every residue of the transpose's leftover-column handling), 8k+-1 and 128k+-1 (k<=6 quick, <=32 thorough), one batch of 66600 OTs (messages above 1 MiB; thorough: also 131200 and 300001, and 200..360), random lengths up to 4096, choice vectors all-0 / all-1 / random, correlation vectors constant or per-index random, three session orders (sender-then-receiver mirrored as in fabitn, the reverse, single session) with session randomness cloned from one seed on both sides, random capacity and schedule; oracle: receiver[i] == sender_zero[i] xor (choice[i] and correlation[i]), both vectors of the requested length, shared generators in step afterwards; distinct = (length, order, modes) tuples".into()
    }
    fn assumptions(&self) -> Vec<String> {
        vec!["reached through the existing __bench re-exports; no hook".into()]
    }
    fn real_components(&self) -> Vec<&'static str> {
        vec!["ot::kos_ot_sender / kos_ot_receiver (Chou-Orlandi base OT, ALSZ, KOS check, transpose, AES hash)"]
    }
    fn cases(&self, tier: Tier, seed: u64) -> Vec<Value> {
        let lens = c11_lengths(tier);
        let reps = if tier == Tier::Quick { 6 } else { 30 };
        let mut v = vec![];
        let mut k = 0u64;
        for rep in 0..reps {
            for chunk in lens.chunks(6) {
                v.push(json!({"seed": seed, "k": k, "lens": chunk, "rep": rep}));
                k += 1;
            }
        }
        let extra = if tier == Tier::Quick { 12 } else { 200 };
        for _ in 0..extra {
            v.push(json!({"seed": seed, "k": k, "lens": [], "rep": 99}));
            k += 1;
        }
        v
    }
    fn run_case(&self, case: &Value, cx: &CaseCx) -> CaseOut {
        let mut out = CaseOut::default();
        let seed = case["seed"].as_u64().unwrap();
        let k = case["k"].as_u64().unwrap();
        let mut rng = entropy::rng(seed, 0xc11, k);
        let mut lens: Vec<usize> = case["lens"].as_array().unwrap().iter().map(|x| x.as_u64().unwrap() as usize).collect();
        if lens.is_empty() {
            lens = (0..3).map(|_| rng.random_range(41..=4096)).collect();
        }
        for len in lens {
            let spec = OtSpec {
                len,
                order: rng.random_range(0..3),
                choice_mode: rng.random_range(0..4),
                corr_mode: rng.random_range(0..2),
                cap: [0, 1, 2][rng.random_range(0..3)],
                seed: rng.random(),
                sched: sched(&mut rng, 2),
            };
            cx.begin(&serde_json::to_value(&spec).unwrap());
            let (v, steps) = c11_run(&spec);
            out.evals += 1;
            out.sim_steps += steps;
            out.count(&format!("order={}", spec.order), 1);
            out.count(if spec.corr_mode == 0 { "corr=constant" } else { "corr=per-index" }, 1);
            if len % 8 != 0 {
                out.count("length_not_multiple_of_8", 1);
            }
            out.distinct.push(entropy::mix(len as u64, spec.order as u64 * 16 + spec.choice_mode as u64 * 4 + spec.corr_mode as u64, spec.cap as u64));
            out.violations.extend(v);
            if out.samples.is_empty() {
                out.samples.push(serde_json::to_value(&spec).unwrap());
            }
        }
        out
    }
    fn replay(&self, spec: &Value) -> Vec<Violation> {
        match serde_json::from_value::<OtSpec>(spec.clone()) {
            Ok(s) => c11_run(&s).0,
            Err(_) => vec![],
        }
    }
    fn shrink(&self, spec: &Value) -> Vec<Value> {
        let Ok(s) = serde_json::from_value::<OtSpec>(spec.clone()) else { return vec![] };
        let mut out = vec![];
        for l in [s.len / 2, s.len - 1, 9, 1] {
            if l >= 1 && l < s.len {
                let mut t = s.clone();
                t.len = l;
                out.push(serde_json::to_value(t).unwrap());
            }
        }
        if s.order != 2 {
            let mut t = s.clone();
            t.order = 2;
            out.push(serde_json::to_value(t).unwrap());
        }
        if s.cap != 0 || s.sched.strategy != Strategy::Fifo {
            let mut t = s.clone();
            t.cap = 0;
            t.sched.strategy = Strategy::Fifo;
            out.push(serde_json::to_value(t).unwrap());
        }
        out
    }
}

// ---------------------------------------------------------------------------------------------
// C10

#[derive(Clone, Debug, Serialize, Deserialize)]
pub struct PreSpec {
    pub n: usize,
    /// number of random shares requested from fashare / the dealer
    pub l: usize,
    /// number of AND triples derandomised (0 = none)
    pub ands: usize,
    pub dealer: bool,
    pub cap: usize,
    pub seed: u64,
    pub sched: SchedSpec,
    /// coin tossing only (pairwise toss, then two multi-party tosses), with one party that
    /// equivocates: towards `victim` it commits to and opens another contribution than towards
    /// the others, consistently (commitment recomputed), in multi-party toss number `round`
    #[serde(default, skip_serializing_if = "Option::is_none")]
    pub equivocate: Option<Equiv>,
    /// trusted dealer only: this party submits, as left share of its first AND pair, a share whose
    /// bit is flipped while the MACs are those of the original bit
    #[serde(default, skip_serializing_if = "Option::is_none")]
    pub dealer_cheater: Option<usize>,
    /// ... and all MACs of that share set to zero instead of left as they were
    #[serde(default, skip_serializing_if = "std::ops::Not::not")]
    pub dealer_cheater_zero_macs: bool,
}

#[derive(Clone, Debug, Serialize, Deserialize)]
pub struct Equiv {
    pub cheater: usize,
    pub victim: usize,
    pub round: usize,
    pub byte: usize,
    pub mask: u8,
    /// true: the cheater is a positional replay of the honest run and never stops; false: it runs
    /// the real code (and normally aborts itself when its own echo comparison fails)
    #[serde(default)]
    pub scripted: bool,
}

struct PreTask {
    spec: PreSpec,
}

struct PreOut {
    delta: u128,
    shares: Vec<PlainShare>,
    alpha_beta: Vec<(PlainShare, PlainShare)>,
    ands: Vec<PlainShare>,
    coins: Vec<u64>,
}

fn pick_pairs(shares: &[PlainShare], ands: usize) -> Vec<(PlainShare, PlainShare)> {
    // arbitrary left/right shares built from the random shares (incl. x AND x)
    (0..ands)
        .map(|j| {
            let a = &shares[(2 * j) % shares.len()];
            let b = &shares[(2 * j + if j % 5 == 4 { 0 } else { 1 }) % shares.len()];
            (a.clone(), b.clone())
        })
        .collect()
}

impl Task for PreTask {
    fn run<'a>(&'a self, p: usize, ch: &'a SimChannel) -> Pin<Box<dyn Future<Output = TaskOut> + 'a>> {
        Box::pin(async move {
            let s = &self.spec;
            let n = s.n;
            if s.dealer {
                if p == n {
                    pv::fpre(ch, n).await?;
                    return Ok(Box::new(()) as Box<dyn std::any::Any + Send>);
                }
                let ands = s.ands;
                let forge = s.dealer_cheater == Some(p);
                let zero = s.dealer_cheater_zero_macs;
                let pick = move |sh: &[PlainShare]| {
                    let mut pairs = pick_pairs(sh, ands);
                    if forge && let Some(first) = pairs.first_mut() {
                        first.0.bit = !first.0.bit;
                        if zero {
                            for m in first.0.macs.iter_mut() {
                                *m = 0;
                            }
                        }
                    }
                    pairs
                };
                let (delta, shares, alpha_beta, ands) = pv::dealer_session(ch, n, s.l, &pick).await?;
                return Ok(Box::new(PreOut {
                    delta,
                    shares,
                    alpha_beta,
                    ands,
                    coins: vec![],
                }));
            }
            let delta: u128 = rand::random();
            let mut pairwise = pv::shared_rng_pairwise(ch, p, n).await?;
            let mut multi = pv::shared_rng(ch, p, n).await?;
            if s.equivocate.is_some() {
                let mut multi2 = pv::shared_rng(ch, p, n).await?;
                return Ok(Box::new(PreOut {
                    delta,
                    shares: vec![],
                    alpha_beta: vec![],
                    ands: vec![],
                    coins: vec![multi.next_u64(), multi2.next_u64()],
                }));
            }
            let shares = pv::fashare(ch, delta, p, n, s.l, &mut pairwise, &mut multi).await?;
            let (mut alpha_beta, mut ands) = (vec![], vec![]);
            if s.ands > 0 {
                alpha_beta = pick_pairs(&shares, s.ands);
                let b = pv::bucket_size(s.ands);
                let abc = pv::fashare(ch, delta, p, n, s.ands * b * 3, &mut pairwise, &mut multi).await?;
                ands = pv::beaver_aand(ch, delta, &alpha_beta, p, n, &mut multi, &abc).await?;
            }
            let mut coins = vec![multi.next_u64()];
            for a in 0..n {
                for b in 0..n {
                    if let Some(r) = pairwise[a][b].as_mut() {
                        coins.push(entropy::mix(a as u64, b as u64, r.next_u64()));
                    }
                }
            }
            Ok(Box::new(PreOut {
                delta,
                shares,
                alpha_beta,
                ands,
                coins,
            }))
        })
    }
}

fn check_macs(kind: &str, outs: &[&PreOut], get: &dyn Fn(&PreOut) -> &Vec<PlainShare>, v: &mut Vec<Violation>, sv: &Value) -> u64 {
    let n = outs.len();
    let len = get(outs[0]).len();
    let mut checked = 0;
    for i in 0..n {
        if get(outs[i]).len() != len {
            v.push(viol("share-count-differs", &format!("share-count-differs:{kind}"), format!("{kind}: party {i} holds {} shares, party 0 {len}", get(outs[i]).len()), sv));
            return checked;
        }
    }
    for i in 0..n {
        for j in 0..n {
            if i == j {
                continue;
            }
            for x in 0..len {
                let si = &get(outs[i])[x];
                let sj = &get(outs[j])[x];
                checked += 1;
                if si.macs.len() != n || sj.keys.len() != n {
                    v.push(viol("share-shape", &format!("share-shape:{kind}"), format!("{kind}[{x}]: party {i} has {} MACs / party {j} {} keys for n={n}", si.macs.len(), sj.keys.len()), sv));
                    return checked;
                }
                let want = sj.keys[i] ^ if si.bit { outs[j].delta } else { 0 };
                if si.macs[j] != want {
                    v.push(viol(
                        "mac-relation-violated",
                        &format!("mac-relation-violated:{kind}"),
                        format!("{kind}[{x}]: MAC held by party {i} for party {j} is {:032x}, expected key_{j}[{i}] ^ (bit & delta_{j}) = {:032x} (bit {})", si.macs[j], want, si.bit),
                        sv,
                    ));
                    return checked;
                }
            }
        }
    }
    checked
}

/// Coin tossing against a party that equivocates consistently (see `Equiv`): every honest party
/// that finishes holds the same multi-party coins as every other honest party that finishes.
fn c10_equivocation_run(spec: &PreSpec, eq: &Equiv) -> (Vec<Violation>, u64, u64) {
    let sv = serde_json::to_value(spec).unwrap();
    let mut v = vec![];
    let mut cfg = RunCfg::honest(spec.n, spec.cap, spec.seed, spec.sched.clone());
    cfg.max_steps = 2_000_000;
    cfg.record_events = true;
    let reference = sim::run(&cfg, Arc::new(PreTask { spec: spec.clone() }));
    cfg.record_events = false;
    let mut steps = reference.steps;
    if !reference.ends.iter().all(|e| matches!(e, End::Ok(_))) {
        v.push(viol("preprocessing-failed", "preprocessing-failed:coin-toss-reference", format!("honest coin tossing failed: {:?}", reference.ends.iter().map(|e| e.summary()).collect::<Vec<_>>()), &sv));
        return (v, steps, 0);
    }
    // occurrence 0 of the phase labels is the pairwise toss
    let occ = eq.round + 1;
    let kth = |phase: &str| reference.transcript.iter().filter(|m| m.from == eq.cheater && m.to == eq.victim && m.phase == phase).nth(occ);
    let (Some(_comm), Some(ver)) = (kth("RNG comm"), kth("RNG ver")) else {
        v.push(viol("harness-error", "c10-equiv-sites", "coin-toss messages not found in the reference run".into(), &sv));
        return (v, steps, 0);
    };
    let Ok(V::Vec(bytes, _)) = schema::decode_msg("RNG ver", &ver.data) else {
        v.push(viol("harness-error", "c10-equiv-decode", "RNG ver does not decode".into(), &sv));
        return (v, steps, 0);
    };
    let mut buf: Vec<u8> = bytes.iter().map(|b| if let V::U8(x) = b { *x } else { 0 }).collect();
    let k = eq.byte % buf.len().max(1);
    buf[k] ^= if eq.mask == 0 { 1 } else { eq.mask };
    let mut buf_id = buf.clone();
    buf_id.extend_from_slice(&(eq.cheater as u16).to_be_bytes());
    let comm2 = blake3::hash(&buf_id);
    let ver_bytes = schema::encode_msg(&V::Vec(buf.iter().map(|b| V::U8(*b)).collect(), buf.len() as u64));
    let comm_bytes = schema::encode_msg(&V::Vec(vec![V::Arr(comm2.as_bytes().iter().map(|b| V::U8(*b)).collect())], 1));
    let sel = |phase: &str| Sel { from: eq.cheater, to: eq.victim, idx: None, phase: Some(phase.into()), occ: Some(occ) };
    cfg.faults = vec![
        Fault { sel: sel("RNG comm"), kind: FaultKind::Mutate(MutSpec::Bytes(comm_bytes)) },
        Fault { sel: sel("RNG ver"), kind: FaultKind::Mutate(MutSpec::Bytes(ver_bytes)) },
    ];
    if eq.scripted {
        cfg.scripted = Some((eq.cheater, reference.reference()));
    }
    let res = sim::run(&cfg, Arc::new(PreTask { spec: spec.clone() }));
    steps += res.steps;
    let fired: u64 = res.fired.values().sum();
    // (the opening is only sent when the cheater's own echo comparison passed, i.e. normally not)
    if fired == 0 {
        v.push(viol("harness-error", "c10-equiv-not-fired", "the substituted commitment was never sent".into(), &sv));
        return (v, steps, 0);
    }
    let mut ok: Vec<(usize, Vec<u64>)> = vec![];
    for (p, e) in res.ends.iter().enumerate() {
        if p == eq.cheater {
            continue;
        }
        match e {
            End::Ok(b) => {
                if let Some(x) = b.downcast_ref::<PreOut>() {
                    ok.push((p, x.coins.clone()));
                }
            }
            End::Panic(m) => v.push(viol("panic", "panic:coin-toss", format!("party {p} panicked: {m}"), &sv)),
            _ => {}
        }
    }
    for w in ok.windows(2) {
        if w[0].1 != w[1].1 {
            v.push(viol(
                "shared-coins-differ",
                "shared-coins-differ:equivocation",
                format!(
                    "party {} committed to and opened one contribution towards party {} and another towards the rest in multi-party toss #{}: honest parties {} and {} both finished the coin tossing, with different shared coins (n={})",
                    eq.cheater, eq.victim, eq.round, w[0].0, w[1].0, spec.n
                ),
                &sv,
            ));
            break;
        }
    }
    (v, steps, ok.len() as u64)
}

pub fn c10_run(spec: &PreSpec) -> (Vec<Violation>, u64, u64) {
    if let Some(eq) = &spec.equivocate {
        return c10_equivocation_run(spec, eq);
    }
    let sv = serde_json::to_value(spec).unwrap();
    let nodes = if spec.dealer { spec.n + 1 } else { spec.n };
    let mut cfg = RunCfg::honest(nodes, spec.cap, spec.seed, spec.sched.clone());
    cfg.max_steps = 5_000_000;
    let res = sim::run(&cfg, Arc::new(PreTask { spec: spec.clone() }));
    let mut v = vec![];
    if let Some(d) = &res.deadlock {
        v.push(viol("deadlock", "deadlock", d.clone(), &sv));
        return (v, res.steps, 0);
    }
    if let Some(c) = spec.dealer_cheater {
        // the dealer must refuse: no honest party may be handed AND shares built on the forged input
        let oks: Vec<(usize, &PreOut)> = res.ends.iter().enumerate().take(spec.n).filter_map(|(p, e)| if let End::Ok(b) = e { b.downcast_ref::<PreOut>().map(|x| (p, x)) } else { None }).collect();
        if let Some((h, o)) = oks.iter().find(|(p, o)| *p != c && !o.ands.is_empty()) {
            v.push(viol(
                "dealer-accepted-forged-share",
                if spec.dealer_cheater_zero_macs { "dealer-accepted-forged-share:zero-macs" } else { "dealer-accepted-forged-share" },
                format!("party {c} submitted a left share with a flipped bit and {}; the dealer answered and honest party {h} holds {} AND shares built on it (n={})", if spec.dealer_cheater_zero_macs { "all MACs set to zero" } else { "the MACs of the original bit" }, o.ands.len(), spec.n),
                &sv,
            ));
        }
        return (v, res.steps, oks.len() as u64);
    }
    let mut outs: Vec<&PreOut> = vec![];
    for (p, e) in res.ends.iter().enumerate().take(spec.n) {
        match e {
            End::Ok(b) => match b.downcast_ref::<PreOut>() {
                Some(x) => outs.push(x),
                None => v.push(viol("harness-error", "downcast", "task output".into(), &sv)),
            },
            other => v.push(viol("preprocessing-failed", &format!("preprocessing-failed:{}", other.kind()), format!("party {p} ended with {} (n={}, l={}, ands={}, dealer={})", other.summary(), spec.n, spec.l, spec.ands, spec.dealer), &sv)),
        }
    }
    if outs.len() != spec.n {
        return (v, res.steps, 0);
    }
    let mut checked = 0;
    // the keys a party holds for its different peers are independent: with one key for several peers
    // the MACs those peers hold (K ^ b_j*delta and K ^ b_k*delta) XOR to the party's global key
    'keys: for (i, o) in outs.iter().enumerate() {
        for (x, sh) in o.shares.iter().enumerate().chain(o.ands.iter().enumerate()) {
            let ks: Vec<u128> = sh.keys.iter().enumerate().filter(|(j, k)| *j != i && **k != 0).map(|(_, k)| *k).collect();
            let mut d = ks.clone();
            d.sort_unstable();
            d.dedup();
            if d.len() != ks.len() {
                v.push(viol(
                    "same-key-for-several-peers",
                    "same-key-for-several-peers",
                    format!("party {i}, share #{x}: it holds the same key for two different peers (n={}, dealer={}): the XOR of the MACs those peers hold is its global key whenever their bits differ", spec.n, spec.dealer),
                    &sv,
                ));
                break 'keys;
            }
        }
    }
    if outs[0].shares.len() != spec.l {
        v.push(viol("wrong-length", "wrong-length", format!("requested {} shares, got {}", spec.l, outs[0].shares.len()), &sv));
    }
    checked += check_macs("random-share", &outs, &|o| &o.shares, &mut v, &sv);
    if spec.ands > 0 {
        if outs[0].ands.len() != spec.ands {
            v.push(viol("wrong-length", "wrong-length", format!("requested {} AND shares, got {}", spec.ands, outs[0].ands.len()), &sv));
        }
        checked += check_macs("and-share", &outs, &|o| &o.ands, &mut v, &sv);
        for x in 0..outs[0].ands.len().min(spec.ands) {
            let a = outs.iter().fold(false, |acc, o| acc ^ o.alpha_beta[x].0.bit);
            let b = outs.iter().fold(false, |acc, o| acc ^ o.alpha_beta[x].1.bit);
            let z = outs.iter().fold(false, |acc, o| acc ^ o.ands[x].bit);
            if z != (a && b) {
                v.push(viol(
                    "and-relation-violated",
                    "and-relation-violated",
                    format!("AND share {x}: shares XOR to {z}, inputs XOR to {a} and {b} (n={}, ands={}, dealer={})", spec.n, spec.ands, spec.dealer),
                    &sv,
                ));
                break;
            }
        }
    }
    if !spec.dealer {
        let c0 = &outs[0].coins;
        // multi-party coin identical everywhere; pairwise coins identical for the pair
        for (p, o) in outs.iter().enumerate() {
            if o.coins[0] != c0[0] {
                v.push(viol("shared-coins-differ", "shared-coins-differ:multi", format!("party {p} derives a different multi-party coin"), &sv));
            }
        }
        let mut pairs: BTreeMap<u64, u32> = BTreeMap::new();
        for o in &outs {
            for c in &o.coins[1..] {
                *pairs.entry(*c).or_insert(0) += 1;
            }
        }
        if pairs.values().any(|c| *c != 2) {
            v.push(viol("shared-coins-differ", "shared-coins-differ:pairwise", "a pairwise generator is not in the same state at both parties".into(), &sv));
        }
    }
    (v, res.steps, checked)
}

pub struct C10;

impl Check for C10 {
    fn id(&self) -> &'static str {
        "C10"
    }
    fn level(&self) -> &'static str {
        "exploration"
    }
    fn rule(&self) -> String {
        "each evaluation is one simulated execution of the real preprocessing sub-protocols by n in 2..5 parties (coin tossing, fashare of length l in {1,2,7,8,9,57,60,64,127,128,129,185,1000,1001,5000}, then beaver_aand for l_and in {1,2,3,100,3099,3100} on arbitrary left/right shares incl. x AND x; bucket size 5 and 4; 280000 (bucket 3) once in thorough) or of the trusted-dealer provider (fpre as extra node), under random capacity and schedule; oracle recomputed from plain integers: for all i != j and every index mac_i[j] == key_j[i] ^ (bit_i & delta_j); XOR of AND shares == AND of XORs of the inputs with valid MACs; multi-party and pairwise shared generators in the same state at all parties; the keys a party holds for its different peers are pairwise different; trusted dealer against a party (every index, n in 2..5) that submits a left share with a flipped bit and either the MACs of the original bit or all MACs set to zero: no honest party may be handed AND shares; distinct = (n, l, l_and, provider) tuples x seeds".into()
    }
    fn assumptions(&self) -> Vec<String> {
        vec!["all parties honest; the relations are checked on the outputs handed to the online phase".into()]
    }
    fn real_components(&self) -> Vec<&'static str> {
        vec!["faand::{shared_rng, shared_rng_pairwise, fashare, beaver_aand} via __verif wrappers", "fpre::fpre (trusted dealer)", "OT extension"]
    }
    fn cases(&self, tier: Tier, seed: u64) -> Vec<Value> {
        let mut v = vec![];
        let mut k = 0u64;
        let ls: &[usize] = &[1, 2, 7, 8, 9, 57, 60, 64, 127, 128, 129, 185, 1000, 1001, 5000];
        let reps = if tier == Tier::Quick { 4 } else { 24 };
        for rep in 0..reps {
            for (i, l) in ls.iter().enumerate() {
                let n = if tier == Tier::Quick { [2, 3, 4, 5, 2, 3][(i + rep) % 6] } else { 2 + (i + rep) % 4 };
                let n = if *l >= 1000 && tier == Tier::Quick { n.min(3) } else { n };
                v.push(json!({"seed": seed, "k": k, "n": n, "l": l, "ands": 0, "dealer": false}));
                k += 1;
            }
            for (i, a) in [1usize, 2, 3, 100, 3099, 3100].iter().enumerate() {
                let n = if *a >= 3099 { 2 } else { 2 + (i + rep) % 4 };
                v.push(json!({"seed": seed, "k": k, "n": n, "l": (2 * a).max(4), "ands": a, "dealer": false}));
                k += 1;
            }
            for n in 2..=5usize {
                let (dl, da) = ([3usize, 40, 1001][(n + rep) % 3], [0usize, 2, 50][(n + rep) % 3]);
                v.push(json!({"seed": seed, "k": k, "n": n, "l": dl, "ands": da, "dealer": true}));
                k += 1;
            }
        }
        if tier == Tier::Thorough {
            v.push(json!({"seed": seed, "k": k, "n": 2, "l": 8, "ands": 280000, "dealer": false}));
            k += 1;
        }
        // trusted dealer against a party that submits a forged share (every index, n in 2..5)
        for n in 2..=5usize {
            for c in 0..n {
                if tier == Tier::Quick && n == 5 && c % 2 == 1 {
                    continue;
                }
                v.push(json!({"seed": seed, "k": k, "n": n, "l": 6, "ands": 2, "dealer": true, "dealer_cheater": c}));
                k += 1;
                v.push(json!({"seed": seed, "k": k, "n": n, "l": 6, "ands": 2, "dealer": true, "dealer_cheater": c, "zero_macs": true}));
                k += 1;
            }
        }
        // coin tossing against an equivocating party
        for e in 0..(if tier == Tier::Quick { 24 } else { 400 }) {
            v.push(json!({"seed": seed, "k": k, "n": 3 + e % 3, "l": 1, "ands": 0, "dealer": false, "equiv": e}));
            k += 1;
        }
        v
    }
    fn run_case(&self, case: &Value, cx: &CaseCx) -> CaseOut {
        let mut out = CaseOut::default();
        let seed = case["seed"].as_u64().unwrap();
        let k = case["k"].as_u64().unwrap();
        let mut rng = entropy::rng(seed, 0xc10, k);
        let n = case["n"].as_u64().unwrap() as usize;
        let spec = PreSpec {
            n,
            l: case["l"].as_u64().unwrap() as usize,
            ands: case["ands"].as_u64().unwrap() as usize,
            dealer: case["dealer"].as_bool().unwrap(),
            cap: [0, 1, 2][rng.random_range(0..3)],
            seed: rng.random(),
            sched: sched(&mut rng, n),
            equivocate: None,
            dealer_cheater: None,
            dealer_cheater_zero_macs: false,
        };
        let mut spec = spec;
        if let Some(c) = case.get("dealer_cheater").and_then(|x| x.as_u64()) {
            spec.dealer_cheater = Some(c as usize % n);
            spec.dealer_cheater_zero_macs = case["zero_macs"] == true;
        }
        if case.get("equiv").is_some() {
            let cheater = rng.random_range(0..n);
            let victim = (cheater + 1 + rng.random_range(0..n - 1)) % n;
            spec.equivocate = Some(Equiv { cheater, victim, round: rng.random_range(0..2), byte: rng.random_range(0..32), mask: 1 << rng.random_range(0..8), scripted: case["equiv"].as_u64().unwrap() % 2 == 0 });
        }
        cx.begin(&serde_json::to_value(&spec).unwrap());
        let (v, steps, checked) = c10_run(&spec);
        out.evals += 1;
        out.sim_steps += steps;
        if spec.dealer_cheater.is_some() {
            out.count("dealer_runs_with_a_forged_submission", 1);
            out.distinct.push(entropy::mix(n as u64, 0xdea1, spec.dealer_cheater.unwrap() as u64));
            out.violations.extend(v);
            return out;
        }
        if spec.equivocate.is_some() {
            out.count(if spec.equivocate.as_ref().unwrap().scripted { "equivocating_coin_toss_runs(scripted cheater)" } else { "equivocating_coin_toss_runs(live cheater)" }, 1);
            out.count("equivocating_coin_toss:honest_parties_that_finished", checked);
            out.count("fired:mutate:bytes", 2);
            out.distinct.push(entropy::mix(n as u64, 0xe9, spec.seed));
            out.violations.extend(v);
            return out;
        }
        out.count("mac_relations_checked", checked);
        out.count(if spec.dealer { "provider=dealer" } else { "provider=distributed" }, 1);
        out.count(&format!("n={n}"), 1);
        if spec.ands > 0 && !spec.dealer {
            out.count(&format!("bucket={}", pv::bucket_size(spec.ands)), 1);
        }
        out.distinct.push(entropy::mix(spec.l as u64, spec.ands as u64, n as u64 * 2 + spec.dealer as u64) ^ spec.seed);
        out.violations.extend(v);
        if k % 5 == 0 {
            out.samples.push(serde_json::to_value(&spec).unwrap());
        }
        out
    }
    fn replay(&self, spec: &Value) -> Vec<Violation> {
        match serde_json::from_value::<PreSpec>(spec.clone()) {
            Ok(s) => c10_run(&s).0,
            Err(_) => vec![],
        }
    }
    fn shrink(&self, spec: &Value) -> Vec<Value> {
        let Ok(s) = serde_json::from_value::<PreSpec>(spec.clone()) else { return vec![] };
        let mut out = vec![];
        for (l, a) in [(s.l / 2, s.ands / 2), (s.l, 1.min(s.ands)), (4, s.ands.min(2)), (1, 0)] {
            if l >= 1 && (l < s.l || a < s.ands) && (a == 0 || l >= 2) {
                let mut t = s.clone();
                t.l = l;
                t.ands = a;
                out.push(serde_json::to_value(t).unwrap());
            }
        }
        if s.n > 2 {
            let mut t = s.clone();
            t.n = 2;
            out.push(serde_json::to_value(t).unwrap());
        }
        out
    }
}

// ---------------------------------------------------------------------------------------------
// C06

pub struct C06;

#[derive(Clone, Debug, Serialize, Deserialize)]
pub struct C06Group {
    pub base: MpcSpec,
    pub runs: usize,
    pub group_seed: u64,
    #[serde(default)]
    pub balance_wide: bool,
}

/// For every input wire (owner, register): the revealed bit xor all other parties' mask shares.
fn revealed_xor_others(spec: &MpcSpec, run: &mpcrun::MpcRun) -> Option<Vec<((usize, usize), bool)>> {
    let c = spec.circuit();
    let n = spec.n();
    let tr = &run.res.transcript;
    let mut out = vec![];
    use polytune::garble_lang::register_circuit::Op;
    for (w, inst) in c.insts.iter().enumerate() {
        let Op::Input(inp) = inst.op else { continue };
        let owner = inp.party as usize;
        // masked input as broadcast by the owner
        let m = tr.iter().find(|m| m.from == owner && m.phase == "masked inputs")?;
        let V::Vec(el, _) = schema::decode_msg("masked inputs", &m.data).ok()? else { return None };
        let V::Opt(_, Some(b)) = el.get(w)? else { return None };
        let V::Bool(masked) = **b else { return None };
        let mut acc = masked != 0;
        for q in (0..n).filter(|q| *q != owner) {
            let ws = tr.iter().find(|m| m.from == q && m.to == owner && m.phase == "wire shares")?;
            let V::Vec(el, _) = schema::decode_msg("wire shares", &ws.data).ok()? else { return None };
            let V::Opt(_, Some(t)) = el.get(w)? else { return None };
            let V::Tup(f) = &**t else { return None };
            let V::Bool(bit) = f[0] else { return None };
            acc ^= bit != 0;
        }
        out.push(((owner, w), acc));
    }
    Some(out)
}

fn bool_stream(v: &V, out: &mut Vec<bool>) {
    match v {
        V::Bool(b) => out.push(*b != 0),
        V::Arr(vs) | V::Tup(vs) | V::Vec(vs, _) => vs.iter().for_each(|x| bool_stream(x, out)),
        V::Opt(_, Some(x)) => bool_stream(x, out),
        _ => {}
    }
}

fn contains_run(hay: &[bool], needle: &[bool]) -> bool {
    needle.len() <= hay.len() && hay.windows(needle.len()).any(|w| w == needle)
}

/// The r-th execution of a group: coins, schedule seed and (canary) inputs are functions of (group seed, r).
fn c06_run_spec(g: &C06Group, r: usize, canary: bool) -> MpcSpec {
    let mut rng = entropy::rng(g.group_seed, 0xc06b, r as u64);
    let value = r % 2 == 1;
    let mut s = g.base.clone();
    if !canary {
        s.inputs = s.inputs.iter().map(|i| (if value { "1" } else { "0" }).repeat(i.len())).collect();
    } else {
        s.inputs = s.inputs.iter().map(|i| (0..i.len()).map(|_| if rng.random() { '1' } else { '0' }).collect()).collect();
    }
    s.seed = rng.random();
    s.sched.seed = rng.random();
    s
}

fn c06_group(g: &C06Group) -> (Vec<Violation>, CaseOut) {
    let sv = serde_json::to_value(g).unwrap();
    let mut out = CaseOut::default();
    let mut v = vec![];
    let n = g.base.n();
    let (mut pad_ones, mut pad_total) = (0u64, 0u64);
    // counts[(owner, w)][value] = (ones, total)
    let mut counts: BTreeMap<(usize, usize), [(u64, u64); 2]> = BTreeMap::new();
    let canary = g.base.inputs.iter().any(|i| i.len() >= 128) && !g.balance_wide;
    let mut fresh_seen: std::collections::HashMap<[u8; 16], (&'static str, usize, usize, usize)> = std::collections::HashMap::new();
    for r in 0..g.runs {
        let s = c06_run_spec(g, r, canary);
        let run = mpcrun::run(&s, None);
        out.evals += 1;
        out.sim_steps += run.res.steps;
        if !run.res.ends.iter().all(|e| e.bits().is_some()) {
            v.push(viol("honest-run-failed", "honest-run-failed", format!("{:?}", run.res.ends.iter().map(|e| e.summary()).collect::<Vec<_>>()), &sv));
            break;
        }
        match revealed_xor_others(&s, &run) {
            Some(bits) => {
                for (k, b) in bits {
                    let e = counts.entry(k).or_insert([(0, 0); 2]);
                    // value of this wire in this run
                    let c = s.circuit();
                    let polytune::garble_lang::register_circuit::Op::Input(inp) = c.insts[k.1].op else { continue };
                    let val = s.inputs[inp.party as usize].as_bytes()[inp.input as usize] == b'1';
                    e[val as usize].0 += b as u64;
                    e[val as usize].1 += 1;
                }
            }
            None => {
                v.push(viol("harness-error", "c06-decode", "cannot locate masked inputs / wire shares in the transcript".into(), &sv));
                break;
            }
        }
        // secret randomness probed at its point of use (sites "fresh:*"): every value has the byte
        // diversity of random data and never occurs twice (any party, any execution of the group)
        for p in 0..n {
            for pr in run.res.probes[p].iter().filter(|x| x.site.starts_with("fresh:") && x.data.len() >= 16) {
                let mut seen = [false; 256];
                for b in &pr.data {
                    seen[*b as usize] = true;
                }
                let distinct = seen.iter().filter(|x| **x).count();
                let need = (pr.data.len().min(128) / 4).max(2);
                out.count("secret_randomness_values_tested", 1);
                if distinct < need {
                    v.push(viol(
                        "secret-randomness-degenerate",
                        &format!("secret-randomness-degenerate:{}", pr.site),
                        format!("party {p}, execution {r}: the {} bytes used at '{}' take only {distinct} distinct values (random data has at least {need} with overwhelming probability): {:02x?}", pr.data.len(), pr.site, &pr.data[..pr.data.len().min(24)]),
                        &sv,
                    ));
                    return (v, out);
                }
                // no 16-byte block of it occurs anywhere else: not at the same site, not at another
                // site, not at another party (two parties drawing "private" values from the same
                // generator), not in another execution
                for (bi, block) in pr.data.chunks_exact(16).enumerate() {
                    let key: [u8; 16] = block.try_into().unwrap();
                    if let Some((site0, p0, r0, b0)) = fresh_seen.insert(key, (pr.site, p, r, bi)) {
                        v.push(viol(
                            "secret-randomness-repeated",
                            &format!("secret-randomness-repeated:{}", if site0 == pr.site { pr.site.to_string() } else { format!("{}+{}", site0.min(pr.site), site0.max(pr.site)) }),
                            format!(
                                "16-byte block #{bi} of the value used at '{}' by party {p} in execution {r} equals block #{b0} of the value used at '{site0}' by party {p0} in execution {r0}",
                                pr.site
                            ),
                            &sv,
                        ));
                        return (v, out);
                    }
                }
            }
        }
        // keys and own mask vectors for the uniqueness check
        for p in 0..n {
            for pr in &run.res.probes[p] {
                if pr.site == "delta" {
                    out.carry.push(json!({"k": entropy::fnv(0, &pr.data), "gs": g.group_seed, "r": r, "p": p}));
                }
                if pr.site == "input_mask_bits" && pr.data.len() >= 64 {
                    out.carry.push(json!({"m": entropy::fnv(0, &pr.data), "gs": g.group_seed, "r": r, "p": p}));
                }
            }
        }
        if canary || g.balance_wide {
            // the party's own shares of the masks of its own input wires are never disclosed: the
            // vector of those bits (>= 64 of them) must not show up in its outgoing traffic
            let circuit = s.circuit();
            for p in 0..n {
                let Some(pr) = run.res.probes[p].iter().find(|x| x.site == "input_mask_bits") else { continue };
                let own: Vec<bool> = circuit
                    .insts
                    .iter()
                    .enumerate()
                    .filter_map(|(w, i)| match i.op {
                        polytune::garble_lang::register_circuit::Op::Input(inp) if inp.party as usize == p => pr.data.get(w).map(|b| *b != 0),
                        _ => None,
                    })
                    .collect();
                if own.len() < 64 {
                    continue;
                }
                let needle = &own[..own.len().min(128)];
                let as_bytes: Vec<u8> = needle.iter().map(|b| *b as u8).collect();
                for m in run.res.transcript.iter().filter(|m| m.from == p) {
                    let mut bs = vec![];
                    if let Ok(val) = schema::decode_msg(&m.phase, &m.data) {
                        bool_stream(&val, &mut bs);
                    }
                    if contains_run(&bs, needle) || m.data.windows(as_bytes.len()).any(|w| w == as_bytes.as_slice()) {
                        v.push(viol(
                            "own-mask-share-disclosed",
                            &format!("own-mask-share-disclosed:{}", m.phase),
                            format!("party {p}'s own shares of the masks of its first {} input wires appear in its '{}' message to party {}", needle.len(), m.phase, m.to),
                            &sv,
                        ));
                        return (v, out);
                    }
                }
                out.count("own_share_vectors_scanned", 1);
            }
        }
        if canary || g.balance_wide {
            // every one-time pad bit of the half-authenticated AND is fresh: no run of more than 64
            // equal pads in the sequence a party used (a constant pad over one call of 80 triples would
            // let the receiver strip it), and the pads are balanced over the whole group
            for p in 0..n {
                let pads: Vec<bool> = run.res.probes[p].iter().filter(|x| x.site == "haand_pad").map(|x| x.data.first().copied().unwrap_or(0) != 0).collect();
                if pads.len() < 80 {
                    continue;
                }
                let mut longest = 0;
                let mut cur = 0;
                for i in 0..pads.len() {
                    cur = if i > 0 && pads[i] == pads[i - 1] { cur + 1 } else { 1 };
                    longest = longest.max(cur);
                }
                pad_ones += pads.iter().filter(|b| **b).count() as u64;
                pad_total += pads.len() as u64;
                out.count("haand_pad_sequences_tested", 1);
                if longest > 64 {
                    v.push(viol(
                        "one-time-pad-reused",
                        "one-time-pad-reused:haand",
                        format!("party {p}: {longest} consecutive half-authenticated-AND pad bits are equal (of {} used in this execution)", pads.len()),
                        &sv,
                    ));
                    return (v, out);
                }
            }
        }
        if canary {
            // no run of 128 plain input bits in the party's traffic
            for p in 0..n {
                let inp: Vec<bool> = s.inputs[p].chars().map(|c| c == '1').collect();
                if inp.len() < 128 {
                    continue;
                }
                let needle = &inp[..128];
                let packed_lsb: Vec<u8> = needle.chunks(8).map(|c| c.iter().enumerate().fold(0u8, |a, (i, b)| a | (*b as u8) << i)).collect();
                let packed_msb: Vec<u8> = needle.chunks(8).map(|c| c.iter().enumerate().fold(0u8, |a, (i, b)| a | (*b as u8) << (7 - i))).collect();
                let as_bytes: Vec<u8> = needle.iter().map(|b| *b as u8).collect();
                for m in run.res.transcript.iter().filter(|m| m.from == p) {
                    let d: &[u8] = &m.data;
                    let raw_hit = d.windows(128).any(|w| w == as_bytes.as_slice()) || d.windows(16).any(|w| w == packed_lsb.as_slice() || w == packed_msb.as_slice());
                    let mut bs = vec![];
                    if let Ok(val) = schema::decode_msg(&m.phase, d) {
                        bool_stream(&val, &mut bs);
                    }
                    if raw_hit || contains_run(&bs, needle) {
                        v.push(viol(
                            "plain-input-bits-in-traffic",
                            &format!("plain-input-bits-in-traffic:{}", m.phase),
                            format!("128 consecutive plain input bits of party {p} appear in its '{}' message to party {}", m.phase, m.to),
                            &sv,
                        ));
                        return (v, out);
                    }
                }
                out.count("canary_messages_scanned", run.res.transcript.iter().filter(|m| m.from == p).count() as u64);
            }
        }
    }
    if pad_total >= 1000 {
        let dev = (pad_ones as f64 - pad_total as f64 / 2.0).abs();
        let bound = 6.5 * (pad_total as f64).sqrt() / 2.0;
        if dev > bound {
            v.push(viol("one-time-pad-biased", "one-time-pad-biased:haand", format!("{pad_ones} of {pad_total} half-authenticated-AND pad bits are 1; allowed deviation {bound:.0}"), &sv));
            return (v, out);
        }
    }
    if !canary {
        for ((owner, w), c) in &counts {
            for val in 0..2 {
                let (ones, total) = c[val];
                if total < 50 {
                    continue;
                }
                let dev = (ones as f64 - total as f64 / 2.0).abs();
                let bound = 6.5 * (total as f64).sqrt() / 2.0;
                out.count("wire_value_cells_tested", 1);
                if dev > bound {
                    v.push(viol(
                        "mask-not-balanced",
                        "mask-not-balanced",
                        format!("input wire at register {w} of party {owner}, input value {val}: (revealed bit xor the others' mask shares) was 1 in {ones} of {total} executions; allowed deviation from {:.0} is {:.1}", total as f64 / 2.0, bound),
                        &sv,
                    ));
                    return (v, out);
                }
            }
        }
    }
    (v, out)
}

/// fashare level: whatever a party hands to the online phase stays with it - neither the MACs it
/// holds on its returned shares nor the keys it holds for the others' returned shares appear in
/// anything it sent during the preprocessing (the consistency round opens only the RHO extra shares).
fn c06_fashare_run(spec: &PreSpec) -> (Vec<Violation>, u64, u64) {
    let sv = json!({"fashare": spec});
    let mut v = vec![];
    let mut cfg = RunCfg::honest(spec.n, spec.cap, spec.seed, spec.sched.clone());
    cfg.max_steps = 5_000_000;
    let res = sim::run(&cfg, Arc::new(PreTask { spec: spec.clone() }));
    let mut looked = 0u64;
    // the OT-extension matrix: row_j = G(k0_j) ^ G(k1_j) ^ r, where r holds the receiver's private
    // choice bits (its mask shares). If the keystream G has internal structure (a block repeated at
    // a fixed distance), row_j[b] ^ row_j[b+d] is the same for all 128 rows and equals r[b] ^ r[b+d].
    for m in res.transcript.iter().filter(|m| m.phase == "ALSZ_OT_setup") {
        let Ok(V::Vec(rows, _)) = schema::decode_msg("ALSZ_OT_setup", &m.data) else { continue };
        let rows: Vec<Vec<u8>> = rows.iter().map(|r| if let V::Vec(bs, _) = r { bs.iter().map(|b| if let V::U8(x) = b { *x } else { 0 }).collect() } else { vec![] }).collect();
        if rows.len() < 16 || rows[0].len() < 32 || rows.iter().any(|r| r.len() != rows[0].len()) {
            continue;
        }
        let blocks = rows[0].len() / 16;
        looked += 1;
        'scan: for d in 1..blocks.min(33) {
            for b in 0..(blocks - d) {
                let x0: Vec<u8> = (0..16).map(|i| rows[0][16 * b + i] ^ rows[0][16 * (b + d) + i]).collect();
                if rows.iter().all(|r| (0..16).all(|i| r[16 * b + i] ^ r[16 * (b + d) + i] == x0[i])) {
                    v.push(viol(
                        "ot-matrix-reveals-choice-bits",
                        "ot-matrix-reveals-choice-bits",
                        format!(
                            "'ALSZ_OT_setup' {}->{} (message #{} of the link, {} rows of {} bytes): block {b} xor block {} is the same in every row - the pads of the two blocks coincide, so the value is the XOR of the sender's private choice bits {}..{} and {}..{}",
                            m.from, m.to, m.idx, rows.len(), rows[0].len(), b + d, 128 * b, 128 * b + 127, 128 * (b + d), 128 * (b + d) + 127
                        ),
                        &sv,
                    ));
                    break 'scan;
                }
            }
        }
    }
    if !v.is_empty() {
        return (v, res.steps, looked);
    }
    for p in 0..spec.n {
        let End::Ok(b) = &res.ends[p] else {
            v.push(viol("preprocessing-failed", "preprocessing-failed:c06", format!("party {p} ended with {}", res.ends[p].summary()), &sv));
            return (v, res.steps, looked);
        };
        let Some(o) = b.downcast_ref::<PreOut>() else { continue };
        let mut windows: std::collections::HashMap<u128, usize> = std::collections::HashMap::new();
        for (mi, m) in res.transcript.iter().enumerate().filter(|(_, m)| m.from == p) {
            let d = &m.data;
            if d.len() >= 16 {
                for i in 0..=(d.len() - 16) {
                    let w: [u8; 16] = d[i..i + 16].try_into().unwrap();
                    windows.entry(u128::from_le_bytes(w)).or_insert(mi);
                    windows.entry(u128::from_be_bytes(w)).or_insert(mi);
                }
            }
        }
        for (x, sh) in o.shares.iter().enumerate() {
            for (what, vals) in [("MAC", &sh.macs), ("key", &sh.keys)] {
                for (k, val) in vals.iter().enumerate() {
                    if *val == 0 || k == p {
                        continue;
                    }
                    looked += 1;
                    if let Some(mi) = windows.get(val) {
                        let m = &res.transcript[*mi];
                        v.push(viol(
                            "returned-share-disclosed",
                            &format!("returned-share-disclosed:{what}:{}", m.phase),
                            format!(
                                "party {p}: the {what} for party {k} of returned share #{x} (of {}) appears in its '{}' message to party {} (message #{} of the link)",
                                o.shares.len(),
                                m.phase,
                                m.to,
                                m.idx
                            ),
                            &sv,
                        ));
                        return (v, res.steps, looked);
                    }
                }
            }
        }
    }
    (v, res.steps, looked)
}

/// The aBit consistency check publishes random linear combinations of a party's secret bits, blinded
/// by extra bits that are thrown away. Every position must take part: if the combination helper gives
/// some position the coefficient 0 in every combination, the blinding bits there blind nothing and
/// the published parities are parities of kept (never to be disclosed) shares.
fn c06_abit_combination(seed: u64) -> (Vec<Violation>, u64) {
    let sv = json!({"abit_combination": seed});
    let mut v = vec![];
    let mut rng = entropy::rng(seed, 0xc06ab, 0);
    let mut evals = 0u64;
    let lens: Vec<usize> = (1..=260).chain([383, 384, 385, 500, 640, 1000]).collect();
    for len in lens {
        let blocks = len.div_ceil(128);
        // 40 coefficient vectors
        let rs: Vec<Vec<[u8; 16]>> = (0..40).map(|_| (0..blocks).map(|_| rng.random::<[u8; 16]>()).collect()).collect();
        if pv::abit_combination(&vec![false; len], &rs[0]) {
            v.push(viol("abit-combination-not-linear", "abit-combination-not-linear", format!("the combination of {len} zero bits is 1"), &sv));
            return (v, evals);
        }
        for i in 0..len {
            let mut e = vec![false; len];
            e[i] = true;
            evals += rs.len() as u64;
            if !rs.iter().any(|r| pv::abit_combination(&e, r)) {
                v.push(viol(
                    "abit-check-position-never-selected",
                    "abit-check-position-never-selected",
                    format!("vector of {len} bits: position {i} has coefficient 0 in all of 40 random combinations (probability 2^-40 for a correct helper): the bit at that position never enters the published parities, so the blinding bits placed there blind nothing"),
                    &sv,
                ));
                return (v, evals);
            }
        }
        // linearity on two random vectors
        let a: Vec<bool> = (0..len).map(|_| rng.random()).collect();
        let b: Vec<bool> = (0..len).map(|_| rng.random()).collect();
        let ab: Vec<bool> = a.iter().zip(&b).map(|(x, y)| x ^ y).collect();
        if pv::abit_combination(&ab, &rs[1]) != (pv::abit_combination(&a, &rs[1]) ^ pv::abit_combination(&b, &rs[1])) {
            v.push(viol("abit-combination-not-linear", "abit-combination-not-linear", format!("f(a^b) != f(a)^f(b) for {len} bits"), &sv));
            return (v, evals);
        }
    }
    (v, evals)
}

impl Check for C06 {
    fn id(&self) -> &'static str {
        "C06"
    }
    fn level(&self) -> &'static str {
        "exploration"
    }
    fn rule(&self) -> String {
        "each case fixes a configuration (n in {2,3}) and executes it N times per input value (N=200 quick, 2000 thorough; fresh coins and schedule seed each) with all input bits 0 resp. 1; from the transcript alone, for every input wire: b = decoded 'masked inputs' bit xor the bits the other parties sent to the owner in 'wire shares'; the count of b=1 must lie within 6.5 sigma of N/2 for input 0 and input 1 alike. Canary cases: a party with 128 random input bits, its outgoing traffic scanned for the run as 128 bool bytes, as 16 packed bytes in both bit orders and as a run in the decoded bool stream. Wide configurations (129 input wires) run under the balance test too, and there the vector of a party's own shares of the masks of its own input wires must not appear in its traffic, and the one-time pads of the half-authenticated AND (probed) must be fresh: no run of more than 64 equal pad bits, balanced overall. All probed global keys, and all own-mask vectors of >= 64 bits, must be pairwise distinct over all runs and parties. Secret randomness probed at its point of use (KOS choice-bit padding, OT-extension base key and seed pairs, base-OT sender scalar): every value has the byte diversity of random data and no 16-byte block of any of them occurs twice - at the same or another site, at the same or another party, in the same or another execution of the group. aBit check combination helper (hook): for every vector length 1..260 and some larger ones, every position is selected by at least one of 40 random coefficient vectors and the combination is linear (a position that never enters the published parities would leave kept shares unblinded). fashare level (n in 2..4, l in {1,2,3,7,40,128,129,1000}): none of the MACs a party holds on the shares fashare returns to it, and none of the keys it holds for the others' returned shares, appears at any byte offset (either byte order) in anything it sent - the consistency round opens only the RHO extra shares; and the rows of every OT-extension matrix ('ALSZ_OT_setup', up to 2428 columns) have no block pair whose XOR is the same in all rows (a keystream that repeats a block would expose the XOR of private choice bits). evaluations = simulated runs; distinct = (configuration, run) coins".into()
    }
    fn assumptions(&self) -> Vec<String> {
        vec![
            "statistical: threshold 6.5 sigma (false-alarm probability < 1e-9 per wire and value); with the default seed the verdict is a fixed function of the tree".into(),
            "the schedule / fault dimension is irrelevant; the simulator contributes the controlled coin source and the decoded view".into(),
        ]
    }
    fn cases(&self, tier: Tier, seed: u64) -> Vec<Value> {
        let (cfgs, runs, canaries) = match tier {
            Tier::Quick => (8, 400, 6),
            Tier::Thorough => (24, 4000, 40),
        };
        let mut v: Vec<Value> = (0..cfgs).map(|k| json!({"seed": seed, "k": k, "runs": runs, "canary": false})).collect();
        v.extend((0..canaries).map(|k| json!({"seed": seed, "k": 1000 + k, "runs": 8, "canary": true})));
        // wide configurations (129 + input wires) under the balance test
        let wide = if tier == Tier::Quick { 2 } else { 8 };
        v.extend((0..wide).map(|k| json!({"seed": seed, "k": 2000 + k, "runs": runs, "canary": true, "wide": true})));
        // fashare level: returned shares are not among the opened ones
        let fa = if tier == Tier::Quick { 4 } else { 40 };
        v.extend((0..fa).map(|k| json!({"seed": seed, "k": 3000 + k, "fashare": true})));
        v.push(json!({"seed": seed, "k": 4000, "abit_combination": true}));
        v
    }
    fn run_case(&self, case: &Value, cx: &CaseCx) -> CaseOut {
        let seed = case["seed"].as_u64().unwrap();
        let k = case["k"].as_u64().unwrap();
        let mut rng = entropy::rng(seed, 0xc06, k);
        if case.get("abit_combination").is_some() {
            let mut out = CaseOut::default();
            cx.begin(&json!({"abit_combination": seed}));
            let (v, evals) = c06_abit_combination(seed);
            out.evals = 1;
            out.count("abit_combinations_evaluated", evals);
            out.distinct.push(0xab17);
            out.violations = v;
            return out;
        }
        if case.get("fashare").is_some() {
            let mut out = CaseOut::default();
            for j in 0..6usize {
                let n = 2 + (k as usize + j) % 3;
                let spec = PreSpec {
                    n,
                    l: if j == 0 { 1000 } else { [1usize, 2, 3, 7, 40, 128, 129, 1000, 2100][rng.random_range(0..9)] },
                    ands: 0,
                    dealer: false,
                    cap: [0, 1, 2][rng.random_range(0..3)],
                    seed: rng.random(),
                    sched: sched(&mut rng, n),
                    equivocate: None,
                    dealer_cheater: None,
                    dealer_cheater_zero_macs: false,
                };
                cx.begin(&json!({"fashare": spec}));
                let (v, steps, looked) = c06_fashare_run(&spec);
                out.evals += 1;
                out.sim_steps += steps;
                out.count("fashare_runs", 1);
                out.count("returned_macs_and_keys_looked_up", looked);
                out.distinct.push(entropy::mix(spec.l as u64, n as u64, spec.seed));
                out.violations.extend(v);
            }
            return out;
        }
        let n = if k % 2 == 0 { 2 } else { 3 };
        let mut spec = gen_honest(&mut rng, n, 1, 3, &[0]);
        spec.tmp = vec![false; n];
        spec.sched.strategy = Strategy::EagerDelivery;
        if case["canary"].as_bool().unwrap() {
            // party 0 with 129 input bits, the others one bit each
            let mut insts: Vec<String> = vec![];
            let mut inputs = vec![129usize];
            for i in 0..129 {
                insts.push(format!("i0.{i}>{i}"));
            }
            for p in 1..n {
                insts.push(format!("i{p}.0>{}", 128 + p));
                inputs.push(1);
            }
            // 16 AND gates, so that one half-authenticated-AND call covers 80 leaky triples
            let base = 129 + n - 1;
            for g in 0..16 {
                insts.push(format!("a{},{}>{}", g, 129, base + g));
            }
            insts.push(format!("x{},{}>{}", base, base + 1, base + 16));
            spec.circ = CircSpec {
                inputs,
                insts,
                outs: vec![base as u32 + 16],
                max_reg: base + 17,
                and_ops: 16,
            };
            spec.inputs = spec.circ.inputs.iter().map(|k| "0".repeat(*k)).collect();
            spec.p_out = (0..n).collect();
        }
        let g = C06Group {
            base: spec,
            runs: case["runs"].as_u64().unwrap() as usize,
            group_seed: rng.random(),
            balance_wide: case.get("wide").and_then(|w| w.as_bool()).unwrap_or(false),
        };
        cx.begin(&serde_json::to_value(&g).unwrap());
        let (v, mut out) = c06_group(&g);
        out.distinct.push(g.group_seed);
        out.distinct.push(g.group_seed ^ 1);
        out.carry.push(json!({"group": g}));
        out.violations = v;
        out.samples.push(json!({"configuration": g.base.sample(), "executions": g.runs, "canary": case["canary"]}));
        out
    }
    fn replay(&self, spec: &Value) -> Vec<Violation> {
        if let Some(sd) = spec.get("abit_combination").and_then(|x| x.as_u64()) {
            return c06_abit_combination(sd).0;
        }
        if let Some(f) = spec.get("fashare") {
            return match serde_json::from_value::<PreSpec>(f.clone()) {
                Ok(s) => c06_fashare_run(&s).0,
                Err(_) => vec![],
            };
        }
        if let Some(what) = spec.get("duplicates").and_then(|d| d.as_str()) {
            // re-execute the two executions named in the spec and compare the probed values
            let site = if what == "keys" { "delta" } else { "input_mask_bits" };
            let mut vals = vec![];
            for side in ["a", "b"] {
                let Ok(g) = serde_json::from_value::<C06Group>(spec[side]["group"].clone()) else { return vec![] };
                let r = spec[side]["r"].as_u64().unwrap_or(0) as usize;
                let p = spec[side]["p"].as_u64().unwrap_or(0) as usize;
                let canary = g.base.inputs.iter().any(|i| i.len() >= 128) && !g.balance_wide;
                let run = mpcrun::run(&c06_run_spec(&g, r, canary), None);
                vals.push(run.res.probes[p].iter().find(|x| x.site == site).map(|x| x.data.clone()));
            }
            if vals[0].is_some() && vals[0] == vals[1] {
                let (class, key) = if what == "keys" { ("global-key-repeated", "global-key-repeated") } else { ("mask-vector-repeated", "mask-vector-repeated") };
                return vec![viol(class, key, format!("the same {} was used in two different (execution, party) pairs", if what == "keys" { "global key" } else { "own-mask vector" }), spec)];
            }
            return vec![];
        }
        match serde_json::from_value::<C06Group>(spec.clone()) {
            Ok(g) => c06_group(&g).0,
            Err(_) => vec![],
        }
    }
    fn finish(&self, carries: &[Value], _tier: Tier) -> (Vec<Violation>, BTreeMap<String, Value>) {
        let mut groups: BTreeMap<u64, Value> = BTreeMap::new();
        for c in carries {
            if let Some(g) = c.get("group") {
                groups.insert(g["group_seed"].as_u64().unwrap_or(0), g.clone());
            }
        }
        let mut keys: BTreeMap<u64, Vec<&Value>> = BTreeMap::new();
        let mut masks: BTreeMap<u64, Vec<&Value>> = BTreeMap::new();
        for c in carries {
            if let Some(k) = c.get("k").and_then(|x| x.as_u64()) {
                keys.entry(k).or_default().push(c);
            }
            if let Some(m) = c.get("m").and_then(|x| x.as_u64()) {
                masks.entry(m).or_default().push(c);
            }
        }
        let mut v = vec![];
        for (what, map, class) in [("keys", &keys, "global-key-repeated"), ("masks", &masks, "mask-vector-repeated")] {
            let dups: Vec<&Vec<&Value>> = map.values().filter(|c| c.len() > 1).collect();
            if let Some(d) = dups.first() {
                let side = |c: &Value| json!({"group": groups.get(&c["gs"].as_u64().unwrap_or(0)), "r": c["r"], "p": c["p"]});
                v.push(viol(
                    class,
                    class,
                    format!("{} value(s) were used by more than one (execution, party); e.g. execution {} party {} and execution {} party {}", dups.len(), d[0]["r"], d[0]["p"], d[1]["r"], d[1]["p"]),
                    &json!({"duplicates": what, "a": side(d[0]), "b": side(d[1])}),
                ));
            }
        }
        let mut m = BTreeMap::new();
        m.insert("global_keys_compared".into(), json!(keys.values().map(|v| v.len()).sum::<usize>()));
        m.insert("mask_vectors_compared".into(), json!(masks.values().map(|v| v.len()).sum::<usize>()));
        (v, m)
    }
}

#[allow(dead_code)]
fn _unused(_: &dyn Fn() -> Vec<bool>) {
    let _ = circ::bits_to_string(&[]);
}
