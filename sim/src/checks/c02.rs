//! C02: a malicious peer can never make an honest party accept a wrong output.
use crate::checks::adversarial::*;
use crate::circ;
use crate::entropy;
use crate::framework::{CaseCx, CaseOut, Check, Tier, Violation};
use crate::mpcrun::{AdvMode, MpcRun, MpcSpec};
use crate::mutate::{self, MutSpec};
use crate::sim::{End, FaultKind};
use serde_json::{Value, json};

pub struct C02;
const SHARDS: u64 = 16;

/// Set-membership oracle: every honest Ok result is f(x_H, x') for one common substitution x'.
pub fn c02_oracle(spec: &MpcSpec, run: &MpcRun) -> Vec<Violation> {
    let mut v = vec![];
    let Some((c, _)) = spec.adversary.clone() else { return v };
    let circuit = spec.circuit();
    let inputs = spec.input_bits();
    let k = inputs[c].len();
    let honest = honest_parties(spec);
    let what = describe_fault(spec);
    let phase = phase_of_fault(run);
    // candidates: all substitutions of the corrupted party's input
    let mut witnesses: Vec<u32> = (0..(1u32 << k)).collect();
    let f = |x: u32| {
        let mut inp = inputs.clone();
        inp[c] = (0..k).map(|i| x >> i & 1 == 1).collect();
        circ::eval_clear(&circuit, &inp)
    };
    let table: Vec<Vec<bool>> = (0..(1u32 << k)).map(f).collect();
    for &h in &honest {
        let End::Ok(_) = &run.res.ends[h] else { continue };
        let Some(y) = run.res.ends[h].bits() else { continue };
        if !spec.p_out.contains(&h) {
            if !y.is_empty() {
                v.push(mk_violation(
                    "non-output-party-got-bits",
                    format!("non-output-party-got-bits:{phase}"),
                    format!("honest non-output party {h} returned {} [{what}]", circ::bits_to_string(y)),
                    spec,
                ));
            }
            continue;
        }
        let ws: Vec<u32> = (0..(1u32 << k)).filter(|x| table[*x as usize] == *y).collect();
        if ws.is_empty() {
            v.push(mk_violation(
                "wrong-output-accepted",
                format!("wrong-output-accepted:{phase}:{}", mut_class(spec)),
                format!(
                    "honest party {h} returned Ok({}) which is f(x_H, x') for no substitution x' of party {c}'s {k} input bits (honest value {}) [{what}; phase '{phase}']",
                    circ::bits_to_string(y),
                    circ::bits_to_string(&table[input_index(&inputs[c])]),
                ),
                spec,
            ));
            return v;
        }
        witnesses.retain(|x| ws.contains(x));
    }
    if witnesses.is_empty() {
        let outs: Vec<String> = honest.iter().map(|h| run.res.ends[*h].summary()).collect();
        v.push(mk_violation(
            "honest-parties-disagree",
            format!("honest-parties-disagree:{phase}:{}", mut_class(spec)),
            format!("no single substitution of party {c}'s input explains all honest Ok results {outs:?} [{what}; phase '{phase}']"),
            spec,
        ));
    }
    v
}

fn input_index(b: &[bool]) -> usize {
    b.iter().enumerate().map(|(i, x)| (*x as usize) << i).sum()
}

fn mut_class(spec: &MpcSpec) -> String {
    spec.faults
        .first()
        .map(|f| match &f.kind {
            FaultKind::Mutate(m) => m.class(),
            FaultKind::Drop => "drop".into(),
            FaultKind::Duplicate => "duplicate".into(),
            FaultKind::ReplayOld(_) => "replay_old".into(),
            FaultKind::SwapNext => "swap_next".into(),
        })
        .unwrap_or_else(|| "tap".into())
}

fn structure_aware(m: &MutSpec) -> bool {
    matches!(m, MutSpec::At { .. } | MutSpec::Multi(_))
}

impl Check for C02 {
    fn id(&self) -> &'static str {
        "C02"
    }
    fn level(&self) -> &'static str {
        "fault_enumeration"
    }
    fn rule(&self) -> String {
        "for each attack configuration (n in {2,3}; corrupted evaluator or garbler with <= 4 input bits; circuits whose outputs are not affine in them; plus n=3 circuits whose AND gates and two of whose outputs involve honest inputs only, so that no substitution explains a change) every message the corrupted party sends (per recipient) x every mutation class of the catalogue (byte-level, structure-aware on the decoded tree, duplicate, replace-by-earlier, drop, swap) is injected, one per simulated run; every site runs with the scripted adversary (never aborts, so unnoticed deviations play out to the output) and the structure-aware ones also with the live adversary (real code, adaptive); plus all pairs of an input-phase bool flip with an output-phase bool flip towards one recipient, the self-consistent preprocessing liars of the C04 catalogue (live cheater whose own state is adapted through a tap: other coin-toss seed, own d-value / Beaver openings, a d-value opening left out of the message and adapted locally), and a seeded swarm of runs with 2-4 random structure-aware edits (same message / same phase to all recipients / earlier and later message to one recipient). Oracle: each honest output party that returns Ok returns f(x_H, x') for one substitution x' common to all honest Ok results, found by exhaustive enumeration of the corrupted input; everything else must be Err. evaluations = attacked runs; distinct = (configuration, site, mutation, mode) with an effective fault".into()
    }
    fn assumptions(&self) -> Vec<String> {
        vec![
            "single corrupted party; one fault per run (n=3 single-recipient faults are equivocations)".into(),
            "statistical escape probabilities of the protocol's own checks (2^-40) are ignored".into(),
            "panics and hangs are C08's business and are not reported here".into(),
        ]
    }
    fn cases(&self, tier: Tier, seed: u64) -> Vec<Value> {
        let mut v = vec![];
        let cfgs: Vec<(usize, bool, u64, u64)> = match tier {
            Tier::Quick => vec![(2, true, 100, 1), (2, false, 101, 1), (3, true, 102, 3), (3, false, 103, 3)],
            Tier::Thorough => {
                let mut c = vec![];
                for k in 0..8 {
                    c.push((2, k % 2 == 0, 100 + k, 1));
                }
                for k in 8..16 {
                    c.push((3, k % 2 == 0, 100 + k, 1));
                }
                c
            }
        };
        for (n, ce, k, frac) in cfgs {
            for sh in 0..SHARDS {
                v.push(json!({"seed": seed, "cfg": k, "n": n, "c_is_eval": ce, "ands": 3 + k % 3, "shard": sh, "frac": frac, "swarm": if tier == Tier::Quick { 160 } else { 1600 }}));
            }
        }
        // circuits whose AND gates and two of whose outputs involve honest inputs only (n = 3)
        for k in 0..(if tier == Tier::Quick { 2 } else { 8 }) {
            for sh in 0..SHARDS {
                v.push(json!({"seed": seed, "cfg": 200 + k, "n": 3, "c_is_eval": k % 2 == 0, "ands": 4, "shard": sh, "family": "honest-and", "frac": if tier == Tier::Quick { 4 } else { 1 }, "swarm": if tier == Tier::Quick { 80 } else { 800 }}));
            }
        }
        // the same family, many configurations, self-consistent preprocessing liars only
        for k in 0..(if tier == Tier::Quick { 16 } else { 64 }) {
            v.push(json!({"seed": seed, "cfg": 300 + k, "n": 3, "c_is_eval": k % 2 == 0, "ands": 4, "shard": 0, "family": "honest-and", "liars_only": true, "frac": 1, "swarm": 0}));
        }
        v
    }
    fn run_case(&self, case: &Value, cx: &CaseCx) -> CaseOut {
        let mut out = CaseOut::default();
        let seed = case["seed"].as_u64().unwrap();
        let cfg = if case["family"] == "honest-and" {
            honest_and_cfg(seed, case["cfg"].as_u64().unwrap(), case["c_is_eval"].as_bool().unwrap())
        } else {
            gen_attack_cfg(
                seed,
                case["cfg"].as_u64().unwrap(),
                case["n"].as_u64().unwrap() as usize,
                case["c_is_eval"].as_bool().unwrap(),
                case["ands"].as_u64().unwrap() as usize,
            )
        };
        let shard = case["shard"].as_u64().unwrap();
        let frac = case["frac"].as_u64().unwrap();
        let r = reference(&cfg);
        if !r.ok {
            out.violations.push(Violation {
                class: "harness-error".into(),
                detail: format!("reference run failed: {:?}", r.ends),
                key: "reference".into(),
                spec: serde_json::to_value(&cfg.base).unwrap(),
            });
            return out;
        }
        let ss = sites(&r.run, cfg.c);
        let mut rng = entropy::rng(seed, 0xc02, cfg.base.seed);
        let mut subs: Vec<(usize, FaultKind, AdvMode)> = vec![];
        for (si, s) in ss.iter().enumerate() {
            let m = &r.run.transcript[s.tr];
            for mu in mutate::catalogue(&s.phase, &m.data, &mut rng, false) {
                if structure_aware(&mu) {
                    subs.push((si, FaultKind::Mutate(mu.clone()), AdvMode::Live));
                }
                subs.push((si, FaultKind::Mutate(mu), AdvMode::Scripted));
            }
            subs.push((si, FaultKind::Duplicate, AdvMode::Scripted));
            subs.push((si, FaultKind::ReplayOld(si / 2), AdvMode::Scripted));
            subs.push((si, FaultKind::Drop, AdvMode::Scripted));
            subs.push((si, FaultKind::SwapNext, AdvMode::Scripted));
        }
        // two cooperating online-phase faults towards one recipient: an altered input-phase bit
        // (masked input / mask share) together with an altered output-phase bit (lambda value /
        // output mask share) - the adaptive attacker that makes its later lie fit its earlier one
        let mut pairs: Vec<Vec<crate::sim::Fault>> = vec![];
        {
            let bool_sites = |phases: &[&str]| -> Vec<(usize, Vec<usize>)> {
                let mut v = vec![];
                for (si, s) in ss.iter().enumerate() {
                    if !phases.contains(&s.phase.as_str()) {
                        continue;
                    }
                    let m = &r.run.transcript[s.tr];
                    if let (Some(t), Ok(val)) = (crate::schema::msg_type(&s.phase), crate::schema::decode_msg(&s.phase, &m.data)) {
                        for path in crate::schema::paths(&val, &t, &|v, _| matches!(v, crate::schema::V::Bool(_))) {
                            v.push((si, path));
                        }
                    }
                }
                v
            };
            let first = bool_sites(&["masked inputs", "wire shares"]);
            let second = bool_sites(&["lambda", "output wire shares"]);
            for (s1, p1) in &first {
                for (s2, p2) in &second {
                    if ss[*s1].to != ss[*s2].to {
                        continue;
                    }
                    pairs.push(vec![
                        fault_at(cfg.c, &ss[*s1], FaultKind::Mutate(MutSpec::At { path: p1.clone(), op: mutate::LeafOp::FlipBool })),
                        fault_at(cfg.c, &ss[*s2], FaultKind::Mutate(MutSpec::At { path: p2.clone(), op: mutate::LeafOp::FlipBool })),
                    ]);
                }
            }
        }
        for (i, faults) in pairs.iter().enumerate() {
            if i as u64 % SHARDS != shard || case["liars_only"] == true {
                continue;
            }
            let spec = attacked_spec(&cfg, AdvMode::Scripted, faults.clone(), vec![], None, &r.decisions);
            cx.begin(&serde_json::to_value(&spec).unwrap());
            let run = run_attack(&spec, Some(r.run.clone()));
            out.evals += 1;
            out.sim_steps += run.res.steps;
            out.merge_fired(&run.res.fired);
            out.count("two_fault_combinations", 1);
            out.distinct.push(entropy::fnv(0, serde_json::to_string(&(&spec.faults, cfg.base.seed)).unwrap().as_bytes()));
            out.violations.extend(c02_oracle(&spec, &run));
        }
        // self-consistent liars in the preprocessing (the live cheater adapts its own state through a
        // tap, alone or together with an edit of what it sends): same oracle - correct or Err
        let all_js: Vec<usize> = (0..cfg.base.circ.and_ops).collect();
        let liars: Vec<crate::checks::c04::Dev> = crate::checks::c04::deviations(&cfg, &r, seed)
            .into_iter()
            .filter(|d| !d.spec.taps.is_empty() && !d.kind.starts_with("dvalue#0:last-opening-left-out"))
            .chain(crate::checks::c04::dvalue_omission_devs(&cfg, &r, &all_js).into_iter().filter(|d| !d.spec.taps.is_empty()))
            .collect();
        for (i, d) in liars.into_iter().enumerate() {
            if i as u64 % SHARDS != shard && case["liars_only"] != true {
                continue;
            }
            cx.begin(&serde_json::to_value(&d.spec).unwrap());
            let run = run_attack(&d.spec, Some(r.run.clone()));
            out.evals += 1;
            out.sim_steps += run.res.steps;
            out.merge_fired(&run.res.fired);
            if run.res.tap_fired == 0 {
                continue;
            }
            out.count("self_consistent_preprocessing_lies", 1);
            if honest_parties(&d.spec).iter().any(|h| matches!(run.res.ends[*h], End::Ok(_))) {
                out.count("self_consistent_preprocessing_lies:some_honest_party_ok", 1);
            }
            count_honest_errs(&mut out, &d.spec, &run);
            out.distinct.push(entropy::fnv(0, serde_json::to_string(&(&d.spec.faults, &d.spec.taps, cfg.base.seed)).unwrap().as_bytes()));
            out.violations.extend(c02_oracle(&d.spec, &run));
        }
        if case["liars_only"] == true {
            return out;
        }
        // swarm: random combinations of 2..4 structure-aware edits
        let swarm = random_multi_faults(&cfg, &r, seed, case["swarm"].as_u64().unwrap_or(160) as usize);
        for (i, spec) in swarm.iter().enumerate() {
            if i as u64 % SHARDS != shard {
                continue;
            }
            cx.begin(&serde_json::to_value(spec).unwrap());
            let run = run_attack(spec, Some(r.run.clone()));
            out.evals += 1;
            out.sim_steps += run.res.steps;
            out.merge_fired(&run.res.fired);
            if !fault_effective(&run) {
                continue;
            }
            out.count("multi_fault_swarm_runs", 1);
            out.distinct.push(entropy::fnv(0, serde_json::to_string(&(&spec.faults, cfg.base.seed)).unwrap().as_bytes()));
            out.violations.extend(c02_oracle(spec, &run));
        }
        if frac > 1 {
            let off = entropy::mix(seed, 0xc02f, 0) % frac;
            subs = subs.into_iter().enumerate().filter(|(i, _)| (*i as u64 + off) % frac == 0).map(|(_, s)| s).collect();
        }
        for (i, (si, kind, mode)) in subs.iter().enumerate() {
            if i as u64 % SHARDS != shard {
                continue;
            }
            let spec = attacked_spec(&cfg, mode.clone(), vec![fault_at(cfg.c, &ss[*si], kind.clone())], vec![], None, &r.decisions);
            cx.begin(&serde_json::to_value(&spec).unwrap());
            let run = run_attack(&spec, Some(r.run.clone()));
            out.evals += 1;
            out.sim_steps += run.res.steps;
            out.merge_fired(&run.res.fired);
            if !fault_effective(&run) {
                out.count("fault_without_effect", 1);
                continue;
            }
            out.count(if *mode == AdvMode::Live { "mode:live" } else { "mode:scripted" }, 1);
            out.distinct.push(entropy::fnv(0, serde_json::to_string(&(&spec.faults, mode, cfg.base.seed)).unwrap().as_bytes()));
            let honest = honest_parties(&spec);
            let any_ok = honest.iter().any(|h| matches!(run.res.ends[*h], End::Ok(_)));
            out.count(if any_ok { "runs_with_an_honest_ok" } else { "runs_all_honest_err" }, 1);
            count_honest_errs(&mut out, &spec, &run);
            out.violations.extend(c02_oracle(&spec, &run));
            if out.samples.is_empty() && any_ok {
                out.samples.push(json!({"configuration": cfg.base.sample(), "corrupted": cfg.c, "mode": format!("{mode:?}"), "fault": describe_fault(&spec),
                    "honest_results": honest.iter().map(|h| run.res.ends[*h].summary()).collect::<Vec<_>>(), "expected_honest_value": circ::bits_to_string(&cfg.base.expected())}));
            }
        }
        out
    }
    fn replay(&self, spec: &Value) -> Vec<Violation> {
        let Some(spec) = parse_spec(spec) else { return vec![] };
        let run = run_attack(&spec, None);
        c02_oracle(&spec, &run)
    }
}
