//! Simulator A: the engine under a deterministic executor, network and fault injector.
//!
//! One OS thread per party (so `rand`'s thread-local generator gives per-party coins), but a
//! baton decides who runs: the scheduler thread releases exactly one party for exactly one
//! `poll` and waits for it to hand the baton back. All leaf futures are ours (`SendFut`,
//! `RecvFut`), so "runnable" is exact and deadlock detection is exact.
use crate::entropy;
use crate::mutate::{self, MutSpec};
use polytune::channel::Channel;
use rand::Rng;
use rand_chacha::ChaCha8Rng;
use serde::{Deserialize, Serialize};
use std::any::Any;
use std::collections::{BTreeMap, VecDeque};
use std::future::Future;
use std::pin::Pin;
use std::sync::atomic::{AtomicBool, Ordering};
use std::sync::{Arc, Mutex, mpsc};
use std::task::{Context, Poll, Wake, Waker};

pub type Bytes = Arc<Vec<u8>>;

#[derive(Clone, Debug)]
pub struct TrMsg {
    /// global event sequence number at which the message was sent
    pub seq: u64,
    pub from: usize,
    pub to: usize,
    /// ordinal of the message on the link from -> to
    pub idx: usize,
    pub phase: String,
    pub data: Bytes,
    /// the bytes the sender produced, when a fault replaced them
    pub orig: Option<Bytes>,
    /// false when the message was suppressed (drop fault / swallowed by a closed endpoint)
    pub enqueued: bool,
    /// global order number among all completed channel operations
    pub ord: u64,
    /// sent by the scripted adversary after something it received differed from what it received in
    /// the reference run: the replayed bytes were computed (in the reference run) from data this
    /// run's adversary never saw, i.e. they carry information from another execution with the same
    /// secrets (a rewinding adversary), which no real peer has
    pub counterfactual: bool,
}

#[derive(Clone, Debug)]
pub struct RecvRec {
    pub seq: u64,
    pub party: usize,
    pub from: usize,
    pub phase: String,
    /// transcript index of the message consumed
    pub tr: usize,
    /// global order number among all completed channel operations
    pub ord: u64,
}

#[derive(Clone, Debug)]
pub enum Op {
    Send(usize),
    Recv { from: usize },
}

#[derive(Clone, Debug, PartialEq, Eq, Serialize, Deserialize)]
pub enum Ev {
    Poll(usize),
    Deliver(usize, usize),
}

impl Ev {
    pub fn label(&self) -> String {
        match self {
            Ev::Poll(p) => format!("P{p}"),
            Ev::Deliver(a, b) => format!("D{a}>{b}"),
        }
    }
    pub fn parse(s: &str) -> Option<Ev> {
        if let Some(r) = s.strip_prefix('P') {
            return r.parse().ok().map(Ev::Poll);
        }
        let r = s.strip_prefix('D')?;
        let (a, b) = r.split_once('>')?;
        Some(Ev::Deliver(a.parse().ok()?, b.parse().ok()?))
    }
}

#[derive(Clone, Debug)]
pub struct EvRec {
    pub ev: Ev,
    pub ops: Vec<Op>,
}

pub struct Flag(pub AtomicBool);
impl Wake for Flag {
    fn wake(self: Arc<Self>) {
        self.0.store(true, Ordering::SeqCst);
    }
    fn wake_by_ref(self: &Arc<Self>) {
        self.0.store(true, Ordering::SeqCst);
    }
}

#[derive(Default)]
struct Link {
    in_flight: VecDeque<usize>,
    inbox: VecDeque<usize>,
    sent: usize,
    recv_waker: Option<Waker>,
    send_waker: Option<Waker>,
    /// message held back by a swap-next fault
    held: Option<usize>,
    phase_occ: BTreeMap<String, usize>,
}

/// Which outgoing message a fault applies to.
#[derive(Clone, Debug, Serialize, Deserialize, PartialEq)]
pub struct Sel {
    pub from: usize,
    pub to: usize,
    /// ordinal on the link from -> to ...
    #[serde(default, skip_serializing_if = "Option::is_none")]
    pub idx: Option<usize>,
    /// ... or the occ-th message with this phase label on the link
    #[serde(default, skip_serializing_if = "Option::is_none")]
    pub phase: Option<String>,
    #[serde(default, skip_serializing_if = "Option::is_none")]
    pub occ: Option<usize>,
}

#[derive(Clone, Debug, Serialize, Deserialize, PartialEq)]
pub enum FaultKind {
    /// replace the bytes by a mutation of them
    Mutate(MutSpec),
    /// the message is never delivered (the sender believes it was sent)
    Drop,
    /// delivered twice
    Duplicate,
    /// replaced by the k-th earlier message of the same link
    ReplayOld(usize),
    /// swapped with the next message of the same link
    SwapNext,
}

#[derive(Clone, Debug, Serialize, Deserialize, PartialEq)]
pub struct Fault {
    pub sel: Sel,
    pub kind: FaultKind,
}

/// A consistent lie through a `__verif` tap at a (live) party.
#[derive(Clone, Debug, Serialize, Deserialize, PartialEq)]
pub struct TapSpec {
    pub party: usize,
    pub site: String,
    /// site-specific index; None = every index
    #[serde(default)]
    pub idx: Option<usize>,
    /// which call of the site with that index (0-based); None = all
    #[serde(default)]
    pub occ: Option<usize>,
    /// xor mask for bytes / u128 taps (ignored for bool taps, which are flipped)
    #[serde(default)]
    pub xor: Vec<u8>,
}

pub struct Net {
    pub n: usize,
    pub cap: usize,
    links: Vec<Link>,
    pub closed: Vec<bool>,
    pub send_to_closed_errs: bool,
    pub step: u64,
    pub transcript: Vec<TrMsg>,
    pub recvs: Vec<RecvRec>,
    cur_ops: Vec<Op>,
    pub chan_ops: Vec<usize>,
    out_send: Vec<u32>,
    out_recv: Vec<u32>,
    pub monitor: Vec<String>,
    faults: Vec<(Fault, bool)>,
    pub sent_total: Vec<usize>,
    pub crash_after: Vec<Option<usize>>,
    pub crash_pending: Vec<bool>,
    pub fired: BTreeMap<String, u64>,
    /// links whose sender ignores capacity (the scripted adversary)
    unbounded_from: Option<usize>,
    mut_rng: ChaCha8Rng,
    pub first_fault_at: Option<usize>,
    opctr: u64,
}

impl Net {
    fn li(&self, from: usize, to: usize) -> usize {
        from * self.n + to
    }
    fn link_len(&self, from: usize, to: usize) -> usize {
        let l = &self.links[self.li(from, to)];
        l.in_flight.len() + l.inbox.len()
    }

    /// Enqueue a message produced by `from` for `to`, applying matching faults.
    /// Returns the transcript index.
    fn enqueue(&mut self, from: usize, to: usize, phase: &str, data: Bytes) -> usize {
        let li = self.li(from, to);
        let idx = self.links[li].sent;
        self.links[li].sent += 1;
        let occ = {
            let e = self.links[li].phase_occ.entry(phase.to_string()).or_insert(0);
            let o = *e;
            *e += 1;
            o
        };
        self.sent_total[from] += 1;
        let mut data = data;
        let mut orig = None;
        let mut enq = true;
        let mut dup = false;
        let mut swap = false;
        for fi in 0..self.faults.len() {
            let (f, done) = &self.faults[fi];
            if *done || f.sel.from != from || f.sel.to != to {
                continue;
            }
            let hit = match (&f.sel.idx, &f.sel.phase) {
                (Some(i), _) => *i == idx,
                (None, Some(p)) => p == phase && f.sel.occ.is_none_or(|o| o == occ),
                (None, None) => false,
            };
            if !hit {
                continue;
            }
            let kind = f.kind.clone();
            self.faults[fi].1 = true;
            if self.first_fault_at.is_none() {
                self.first_fault_at = Some(self.transcript.len());
            }
            let name = match &kind {
                FaultKind::Mutate(m) => {
                    let new = mutate::apply(m, phase, &data, self.n, &mut self.mut_rng);
                    orig = Some(data.clone());
                    data = Arc::new(new);
                    format!("mutate:{}", m.class())
                }
                FaultKind::Drop => {
                    enq = false;
                    "drop".to_string()
                }
                FaultKind::Duplicate => {
                    dup = true;
                    "duplicate".to_string()
                }
                FaultKind::ReplayOld(k) => {
                    let olds: Vec<&TrMsg> = self
                        .transcript
                        .iter()
                        .filter(|m| m.from == from && m.to == to)
                        .collect();
                    if !olds.is_empty() {
                        let o = olds[*k % olds.len()];
                        orig = Some(data.clone());
                        data = o.data.clone();
                    }
                    "replay_old".to_string()
                }
                FaultKind::SwapNext => {
                    swap = true;
                    "swap_next".to_string()
                }
            };
            *self.fired.entry(name).or_insert(0) += 1;
        }
        let tr = self.transcript.len();
        self.opctr += 1;
        self.transcript.push(TrMsg {
            seq: self.step,
            from,
            to,
            idx,
            phase: phase.to_string(),
            data,
            orig,
            enqueued: enq,
            ord: self.opctr,
            counterfactual: false,
        });
        if enq {
            if swap {
                self.links[li].held = Some(tr);
            } else {
                self.links[li].in_flight.push_back(tr);
                if dup {
                    self.links[li].in_flight.push_back(tr);
                }
                if let Some(h) = self.links[li].held.take() {
                    self.links[li].in_flight.push_back(h);
                }
            }
        }
        tr
    }

    fn deliver(&mut self, from: usize, to: usize) -> bool {
        let li = self.li(from, to);
        let Some(tr) = self.links[li].in_flight.pop_front() else {
            return false;
        };
        self.links[li].inbox.push_back(tr);
        if let Some(w) = self.links[li].recv_waker.take() {
            w.wake();
        }
        true
    }

    fn close(&mut self, p: usize) {
        self.closed[p] = true;
        for q in 0..self.n {
            if q == p {
                continue;
            }
            // a held message of a vanished sender is flushed
            let li = self.li(p, q);
            if let Some(h) = self.links[li].held.take() {
                self.links[li].in_flight.push_back(h);
            }
            if let Some(w) = self.links[li].recv_waker.take() {
                w.wake();
            }
            let lj = self.li(q, p);
            if let Some(w) = self.links[lj].send_waker.take() {
                w.wake();
            }
        }
    }

    pub fn deliverable(&self) -> Vec<(usize, usize)> {
        let mut v = vec![];
        for a in 0..self.n {
            for b in 0..self.n {
                if a != b && !self.links[self.li(a, b)].in_flight.is_empty() {
                    v.push((a, b));
                }
            }
        }
        v
    }

    pub fn blocked_description(&self) -> String {
        let mut s = vec![];
        for a in 0..self.n {
            for b in 0..self.n {
                if a == b {
                    continue;
                }
                let l = &self.links[self.li(a, b)];
                if l.recv_waker.is_some() {
                    s.push(format!("P{b} waits to receive from P{a}"));
                }
                if l.send_waker.is_some() {
                    s.push(format!(
                        "P{a} waits to send to P{b} (link holds {})",
                        l.in_flight.len() + l.inbox.len()
                    ));
                }
            }
        }
        s.join("; ")
    }
}

#[derive(Clone)]
pub struct SimChannel {
    pub me: usize,
    pub net: Arc<Mutex<Net>>,
}

pub struct SendFut<'a> {
    ch: &'a SimChannel,
    to: usize,
    data: Option<Vec<u8>>,
    phase: String,
    started: bool,
    done: bool,
}

impl Future for SendFut<'_> {
    type Output = Result<(), String>;
    fn poll(mut self: Pin<&mut Self>, cx: &mut Context<'_>) -> Poll<Self::Output> {
        let me = self.ch.me;
        let to = self.to;
        let mut net = self.ch.net.lock().unwrap();
        let n = net.n;
        if !self.started {
            self.started = true;
            net.chan_ops[me] += 1;
            if to < n {
                net.out_send[me * n + to] += 1;
                if net.out_send[me * n + to] > 1 {
                    let m = format!(
                        "two sends outstanding: P{me} -> P{to} (phase {})",
                        self.phase
                    );
                    net.monitor.push(m);
                }
            }
        }
        if to >= n || to == me {
            self.done = true;
            if to < n {
                net.out_send[me * n + to] -= 1;
            }
            return Poll::Ready(Err(format!("no such peer {to}")));
        }
        if let Some(k) = net.crash_after[me]
            && net.sent_total[me] >= k
        {
            net.crash_pending[me] = true;
            return Poll::Pending;
        }
        if net.closed[to] {
            self.done = true;
            net.out_send[me * n + to] -= 1;
            let data = Arc::new(self.data.take().unwrap());
            let li = net.li(me, to);
            let idx = net.links[li].sent;
            net.links[li].sent += 1;
            net.sent_total[me] += 1;
            let step = net.step;
            net.opctr += 1;
            let ord = net.opctr;
            net.transcript.push(TrMsg {
                seq: step,
                from: me,
                to,
                idx,
                phase: self.phase.clone(),
                data,
                orig: None,
                enqueued: false,
                ord,
                counterfactual: false,
            });
            return if net.send_to_closed_errs {
                Poll::Ready(Err("peer closed".into()))
            } else {
                Poll::Ready(Ok(()))
            };
        }
        if net.cap > 0 && net.unbounded_from != Some(me) && net.link_len(me, to) >= net.cap {
            let li = net.li(me, to);
            net.links[li].send_waker = Some(cx.waker().clone());
            return Poll::Pending;
        }
        self.done = true;
        net.out_send[me * n + to] -= 1;
        let data = Arc::new(self.data.take().unwrap());
        let phase = self.phase.clone();
        let tr = net.enqueue(me, to, &phase, data);
        net.cur_ops.push(Op::Send(tr));
        Poll::Ready(Ok(()))
    }
}

impl Drop for SendFut<'_> {
    fn drop(&mut self) {
        if self.started && !self.done {
            if let Ok(mut net) = self.ch.net.lock() {
                let n = net.n;
                if self.to < n {
                    let i = self.ch.me * n + self.to;
                    net.out_send[i] = net.out_send[i].saturating_sub(1);
                }
            }
        }
    }
}

pub struct RecvFut<'a> {
    ch: &'a SimChannel,
    from: usize,
    phase: String,
    started: bool,
    done: bool,
}

impl Future for RecvFut<'_> {
    type Output = Result<Vec<u8>, String>;
    fn poll(mut self: Pin<&mut Self>, cx: &mut Context<'_>) -> Poll<Self::Output> {
        let me = self.ch.me;
        let from = self.from;
        let mut net = self.ch.net.lock().unwrap();
        let n = net.n;
        if !self.started {
            self.started = true;
            net.chan_ops[me] += 1;
            if from < n {
                net.out_recv[me * n + from] += 1;
                if net.out_recv[me * n + from] > 1 {
                    let m = format!(
                        "two receives outstanding: P{me} <- P{from} (phase {})",
                        self.phase
                    );
                    net.monitor.push(m);
                }
            }
        }
        if from >= n || from == me {
            self.done = true;
            if from < n {
                net.out_recv[me * n + from] -= 1;
            }
            return Poll::Ready(Err(format!("no such peer {from}")));
        }
        let li = net.li(from, me);
        if let Some(tr) = net.links[li].inbox.pop_front() {
            self.done = true;
            net.out_recv[me * n + from] -= 1;
            if let Some(w) = net.links[li].send_waker.take() {
                w.wake();
            }
            let step = net.step;
            let phase = self.phase.clone();
            net.opctr += 1;
            let ord = net.opctr;
            net.recvs.push(RecvRec {
                seq: step,
                party: me,
                from,
                phase,
                tr,
                ord,
            });
            net.cur_ops.push(Op::Recv { from });
            let data = net.transcript[tr].data.as_ref().clone();
            return Poll::Ready(Ok(data));
        }
        if net.closed[from] && net.links[li].in_flight.is_empty() {
            self.done = true;
            net.out_recv[me * n + from] -= 1;
            return Poll::Ready(Err("peer closed".into()));
        }
        net.links[li].recv_waker = Some(cx.waker().clone());
        Poll::Pending
    }
}

impl Drop for RecvFut<'_> {
    fn drop(&mut self) {
        if self.started && !self.done {
            if let Ok(mut net) = self.ch.net.lock() {
                let n = net.n;
                if self.from < n {
                    let i = self.ch.me * n + self.from;
                    net.out_recv[i] = net.out_recv[i].saturating_sub(1);
                }
            }
        }
    }
}

impl Channel for SimChannel {
    type SendError = String;
    type RecvError = String;
    async fn send_bytes_to(&self, party: usize, data: Vec<u8>, phase: &str) -> Result<(), String> {
        SendFut {
            ch: self,
            to: party,
            data: Some(data),
            phase: phase.to_string(),
            started: false,
            done: false,
        }
        .await
    }
    async fn recv_bytes_from(&self, party: usize, phase: &str) -> Result<Vec<u8>, String> {
        RecvFut {
            ch: self,
            from: party,
            phase: phase.to_string(),
            started: false,
            done: false,
        }
        .await
    }
}

// ---------------------------------------------------------------------------------------------
// scheduling

#[derive(Clone, Debug, Serialize, Deserialize, PartialEq)]
pub enum Strategy {
    /// uniform over enabled events
    Uniform,
    /// parties have speeds (weights); deliveries weight 1
    Weighted(Vec<u32>),
    /// PCT style: random priorities per party and per link, `d` priority change points
    Pct { d: usize, horizon: usize },
    /// one party runs until it blocks; deliveries eager
    RunToBlock,
    /// deliveries happen as soon as possible; polls uniform
    EagerDelivery,
    /// deliveries happen only when no party is runnable
    LazyDelivery,
    /// party `p` is stalled until nothing else can happen
    Stall(usize),
    /// lowest-index enabled event (canonical FIFO policy)
    Fifo,
}

#[derive(Clone, Debug, Serialize, Deserialize, PartialEq)]
pub struct SchedSpec {
    pub strategy: Strategy,
    pub seed: u64,
    /// explicit prefix of decisions (event labels); followed, while applicable, before `strategy`
    #[serde(default, skip_serializing_if = "Vec::is_empty")]
    pub explicit: Vec<String>,
}

struct Scheduler {
    strategy: Strategy,
    rng: ChaCha8Rng,
    explicit: Vec<Ev>,
    pos: usize,
    prio_party: Vec<i64>,
    prio_link: Vec<i64>,
    change_points: Vec<usize>,
    last: Option<usize>,
    steps: usize,
}

impl Scheduler {
    fn new(spec: &SchedSpec, n: usize) -> Self {
        let mut rng = entropy::rng(spec.seed, 0x5c4ed, 0);
        let (mut prio_party, mut prio_link, mut change_points) = (vec![], vec![], vec![]);
        if let Strategy::Pct { d, horizon } = &spec.strategy {
            prio_party = (0..n).map(|_| rng.random_range(1000..2000)).collect();
            prio_link = (0..n * n).map(|_| rng.random_range(1000..2000)).collect();
            change_points = (0..*d).map(|_| rng.random_range(0..*horizon.max(&1))).collect();
        }
        Scheduler {
            strategy: spec.strategy.clone(),
            rng,
            explicit: spec.explicit.iter().filter_map(|s| Ev::parse(s)).collect(),
            pos: 0,
            prio_party,
            prio_link,
            change_points,
            last: None,
            steps: 0,
        }
    }

    fn pick(&mut self, enabled: &[Ev], n: usize) -> usize {
        self.steps += 1;
        while self.pos < self.explicit.len() {
            let want = self.explicit[self.pos].clone();
            self.pos += 1;
            if let Some(i) = enabled.iter().position(|e| *e == want) {
                return i;
            }
            // not applicable: skip this decision (shrunk or diverged schedule)
        }
        let polls: Vec<usize> = enabled
            .iter()
            .enumerate()
            .filter(|(_, e)| matches!(e, Ev::Poll(_)))
            .map(|(i, _)| i)
            .collect();
        let dels: Vec<usize> = enabled
            .iter()
            .enumerate()
            .filter(|(_, e)| matches!(e, Ev::Deliver(..)))
            .map(|(i, _)| i)
            .collect();
        match &self.strategy {
            Strategy::Uniform => self.rng.random_range(0..enabled.len()),
            Strategy::Fifo => 0,
            Strategy::Weighted(w) => {
                let ws: Vec<u32> = enabled
                    .iter()
                    .map(|e| match e {
                        Ev::Poll(p) => w.get(*p).copied().unwrap_or(1).max(1),
                        Ev::Deliver(..) => 4,
                    })
                    .collect();
                let total: u32 = ws.iter().sum();
                let mut r = self.rng.random_range(0..total);
                for (i, w) in ws.iter().enumerate() {
                    if r < *w {
                        return i;
                    }
                    r -= *w;
                }
                0
            }
            Strategy::Pct { .. } => {
                if self.change_points.contains(&self.steps) {
                    // lower the priority of whoever ran last
                    if let Some(p) = self.last {
                        self.prio_party[p] = self.rng.random_range(0..1000);
                    }
                }
                let mut best = 0;
                let mut bp = i64::MIN;
                for (i, e) in enabled.iter().enumerate() {
                    let pr = match e {
                        Ev::Poll(p) => self.prio_party[*p],
                        Ev::Deliver(a, b) => self.prio_link[a * n + b],
                    };
                    if pr > bp {
                        bp = pr;
                        best = i;
                    }
                }
                if let Ev::Poll(p) = enabled[best] {
                    self.last = Some(p);
                }
                best
            }
            Strategy::RunToBlock => {
                if !dels.is_empty() {
                    return dels[0];
                }
                if let Some(l) = self.last
                    && let Some(i) = enabled.iter().position(|e| *e == Ev::Poll(l))
                {
                    return i;
                }
                let i = polls[self.rng.random_range(0..polls.len())];
                if let Ev::Poll(p) = enabled[i] {
                    self.last = Some(p);
                }
                i
            }
            Strategy::EagerDelivery => {
                if !dels.is_empty() {
                    dels[self.rng.random_range(0..dels.len())]
                } else {
                    polls[self.rng.random_range(0..polls.len())]
                }
            }
            Strategy::LazyDelivery => {
                if !polls.is_empty() {
                    polls[self.rng.random_range(0..polls.len())]
                } else {
                    dels[self.rng.random_range(0..dels.len())]
                }
            }
            Strategy::Stall(p) => {
                let others: Vec<usize> = enabled
                    .iter()
                    .enumerate()
                    .filter(|(_, e)| **e != Ev::Poll(*p))
                    .map(|(i, _)| i)
                    .collect();
                if others.is_empty() {
                    0
                } else {
                    others[self.rng.random_range(0..others.len())]
                }
            }
        }
    }
}

// ---------------------------------------------------------------------------------------------
// tasks and the run loop

pub type TaskOut = Result<Box<dyn Any + Send>, String>;

/// What a party runs. Created on the party's own thread.
pub trait Task: Send + Sync {
    fn run<'a>(&'a self, p: usize, ch: &'a SimChannel) -> Pin<Box<dyn Future<Output = TaskOut> + 'a>>;
}

#[derive(Debug)]
pub enum End {
    Ok(Box<dyn Any + Send>),
    Err(String),
    Panic(String),
    /// injected crash: the future was dropped
    Crashed,
    /// the party was not run (scripted adversary)
    Scripted,
    /// still blocked when the run ended (deadlock / step limit)
    Blocked,
}

impl End {
    pub fn kind(&self) -> &'static str {
        match self {
            End::Ok(_) => "ok",
            End::Err(_) => "err",
            End::Panic(_) => "panic",
            End::Crashed => "crashed",
            End::Scripted => "scripted",
            End::Blocked => "blocked",
        }
    }
    pub fn bits(&self) -> Option<&Vec<bool>> {
        match self {
            End::Ok(b) => b.downcast_ref::<Vec<bool>>(),
            _ => None,
        }
    }
    pub fn summary(&self) -> String {
        match self {
            End::Ok(b) => match b.downcast_ref::<Vec<bool>>() {
                Some(v) => format!("Ok({})", v.iter().map(|b| if *b { '1' } else { '0' }).collect::<String>()),
                None => "Ok(..)".into(),
            },
            End::Err(e) => format!("Err({e})"),
            End::Panic(m) => format!("PANIC({m})"),
            End::Crashed => "Crashed".into(),
            End::Scripted => "Scripted".into(),
            End::Blocked => "Blocked".into(),
        }
    }
}

pub struct Reference {
    pub events: Vec<EvRec>,
    pub transcript: Vec<TrMsg>,
}

pub struct RunCfg {
    pub n: usize,
    pub cap: usize,
    pub seed: u64,
    pub sched: SchedSpec,
    pub faults: Vec<Fault>,
    pub taps: Vec<TapSpec>,
    /// party that is not executed but replayed from `reference`
    pub scripted: Option<(usize, Arc<Reference>)>,
    /// crash party after its k-th completed send
    pub crash: Option<(usize, usize)>,
    pub send_to_closed_errs: bool,
    pub max_steps: usize,
    pub record_events: bool,
}

impl RunCfg {
    pub fn honest(n: usize, cap: usize, seed: u64, sched: SchedSpec) -> Self {
        RunCfg {
            n,
            cap,
            seed,
            sched,
            faults: vec![],
            taps: vec![],
            scripted: None,
            crash: None,
            send_to_closed_errs: true,
            max_steps: 2_000_000,
            record_events: false,
        }
    }
}

#[derive(Clone, Debug)]
pub struct ProbeRec {
    pub site: &'static str,
    pub data: Vec<u8>,
}

pub struct RunResult {
    pub ends: Vec<End>,
    pub transcript: Vec<TrMsg>,
    pub recvs: Vec<RecvRec>,
    pub events: Vec<EvRec>,
    pub decisions: Vec<String>,
    pub steps: u64,
    pub polls: u64,
    pub deliveries: u64,
    /// Some(description) when unfinished parties remained with no enabled event
    pub deadlock: Option<String>,
    pub step_limit: bool,
    pub monitor: Vec<String>,
    pub chan_ops: Vec<usize>,
    pub probes: Vec<Vec<ProbeRec>>,
    /// (peak, largest single request) per party
    pub alloc: Vec<(usize, usize)>,
    pub fired: BTreeMap<String, u64>,
    pub tap_fired: u64,
    pub entropy_drawn: Vec<u64>,
    /// true when, at the first fired fault, the transcript so far equalled the reference's prefix
    pub prefix_identical: Option<bool>,
    pub sched_hash: u64,
    pub progress_hash: u64,
    /// step at which each party ended
    pub end_step: Vec<Option<u64>>,
}

enum Cmd {
    Poll,
    Drop,
}
enum Reply {
    Pending,
    Done(End),
}

struct PartyHooks {
    taps: Vec<TapSpec>,
    occ: std::cell::RefCell<BTreeMap<(String, usize), usize>>,
    probes: std::cell::RefCell<Vec<ProbeRec>>,
    fired: std::cell::Cell<u64>,
}

impl PartyHooks {
    fn matches(&self, site: &'static str, idx: usize) -> Option<TapSpec> {
        let mut hit = None;
        for t in &self.taps {
            if t.site == site && t.idx.is_none_or(|i| i == idx) {
                let mut occ = self.occ.borrow_mut();
                let e = occ.entry((site.to_string(), idx)).or_insert(0);
                let o = *e;
                *e += 1;
                if t.occ.is_none_or(|x| x == o) {
                    hit = Some(t.clone());
                }
                break;
            }
        }
        if hit.is_some() {
            self.fired.set(self.fired.get() + 1);
        }
        hit
    }
}

impl polytune::verif::Hooks for PartyHooks {
    fn probe(&self, site: &'static str, data: &[u8]) {
        self.probes.borrow_mut().push(ProbeRec {
            site,
            data: data.to_vec(),
        });
    }
    fn tap_bool(&self, site: &'static str, idx: usize, v: bool) -> bool {
        match self.matches(site, idx) {
            Some(_) => !v,
            None => v,
        }
    }
    fn tap_u128(&self, site: &'static str, idx: usize, v: u128) -> u128 {
        match self.matches(site, idx) {
            Some(t) => {
                let mut m = [0u8; 16];
                for (i, b) in t.xor.iter().take(16).enumerate() {
                    m[i] = *b;
                }
                v ^ u128::from_le_bytes(m)
            }
            None => v,
        }
    }
    fn tap_bytes(&self, site: &'static str, v: &mut [u8]) {
        if let Some(t) = self.matches(site, 0) {
            for (i, b) in v.iter_mut().enumerate() {
                *b ^= t.xor.get(i).copied().unwrap_or(if i == 0 { 1 } else { 0 });
            }
        }
    }
}

struct PartyReport {
    probes: Vec<ProbeRec>,
    alloc: (usize, usize),
    tap_fired: u64,
    drawn: u64,
}

fn panic_message(e: Box<dyn Any + Send>) -> String {
    if let Some(s) = e.downcast_ref::<&str>() {
        s.to_string()
    } else if let Some(s) = e.downcast_ref::<String>() {
        s.clone()
    } else {
        "panic".to_string()
    }
}

thread_local! {
    pub static LAST_PANIC_LOC: std::cell::RefCell<Option<String>> = const { std::cell::RefCell::new(None) };
    /// every panic seen on this thread (message at file:line)
    pub static PANIC_LOG: std::cell::RefCell<Vec<String>> = const { std::cell::RefCell::new(Vec::new()) };
}

/// Install a silent panic hook that records the location in a thread-local.
pub fn install_panic_hook() {
    std::panic::set_hook(Box::new(|info| {
        let loc = info
            .location()
            .map(|l| format!("{}:{}", l.file(), l.line()))
            .unwrap_or_default();
        let msg = if let Some(s) = info.payload().downcast_ref::<&str>() {
            s.to_string()
        } else if let Some(s) = info.payload().downcast_ref::<String>() {
            s.clone()
        } else {
            "panic".to_string()
        };
        let _ = PANIC_LOG.try_with(|c| c.borrow_mut().push(format!("{msg} at {loc}")));
        let _ = LAST_PANIC_LOC.try_with(|c| *c.borrow_mut() = Some(loc));
    }));
}

pub fn run(cfg: &RunCfg, task: Arc<dyn Task>) -> RunResult {
    let n = cfg.n;
    let flags: Vec<Arc<Flag>> = (0..n).map(|_| Arc::new(Flag(AtomicBool::new(true)))).collect();
    let scripted = cfg.scripted.as_ref().map(|s| s.0);
    let net = Arc::new(Mutex::new(Net {
        n,
        cap: cfg.cap,
        links: (0..n * n).map(|_| Link::default()).collect(),
        closed: vec![false; n],
        send_to_closed_errs: cfg.send_to_closed_errs,
        step: 0,
        transcript: vec![],
        recvs: vec![],
        cur_ops: vec![],
        chan_ops: vec![0; n],
        out_send: vec![0; n * n],
        out_recv: vec![0; n * n],
        monitor: vec![],
        faults: cfg.faults.iter().cloned().map(|f| (f, false)).collect(),
        sent_total: vec![0; n],
        crash_after: (0..n)
            .map(|p| cfg.crash.and_then(|(cp, k)| if cp == p { Some(k) } else { None }))
            .collect(),
        crash_pending: vec![false; n],
        fired: BTreeMap::new(),
        unbounded_from: scripted,
        mut_rng: entropy::rng(cfg.seed, 0x3a7, 0),
        first_fault_at: None,
        opctr: 0,
    }));

    // party threads
    let mut cmd_tx: Vec<Option<mpsc::Sender<Cmd>>> = vec![];
    let mut rep_rx: Vec<Option<mpsc::Receiver<Reply>>> = vec![];
    let mut handles: Vec<Option<std::thread::JoinHandle<PartyReport>>> = vec![];
    for p in 0..n {
        if scripted == Some(p) {
            cmd_tx.push(None);
            rep_rx.push(None);
            handles.push(None);
            continue;
        }
        let (ctx, crx) = mpsc::channel::<Cmd>();
        let (rtx, rrx) = mpsc::channel::<Reply>();
        cmd_tx.push(Some(ctx));
        rep_rx.push(Some(rrx));
        let net = net.clone();
        let task = task.clone();
        let flag = flags[p].clone();
        let seed = cfg.seed;
        let taps: Vec<TapSpec> = cfg.taps.iter().filter(|t| t.party == p).cloned().collect();
        let h = std::thread::Builder::new()
            .stack_size(16 << 20)
            .name(format!("party{p}"))
            .spawn(move || {
                entropy::seed_thread(seed, p as u64 + 1);
                crate::alloc::reset();
                let hooks = std::rc::Rc::new(PartyHooks {
                    taps,
                    occ: Default::default(),
                    probes: Default::default(),
                    fired: Default::default(),
                });
                polytune::verif::set_hooks(Some(hooks.clone()));
                let ch = SimChannel { me: p, net };
                let waker = Waker::from(flag);
                {
                    let mut fut = Some(task.run(p, &ch));
                    while let Ok(cmd) = crx.recv() {
                        match cmd {
                            Cmd::Drop => {
                                fut = None;
                                let _ = rtx.send(Reply::Done(End::Crashed));
                                break;
                            }
                            Cmd::Poll => {
                                let mut cx = Context::from_waker(&waker);
                                let f = fut.as_mut().unwrap();
                                let r = std::panic::catch_unwind(std::panic::AssertUnwindSafe(|| {
                                    f.as_mut().poll(&mut cx)
                                }));
                                match r {
                                    Ok(Poll::Pending) => {
                                        let _ = rtx.send(Reply::Pending);
                                    }
                                    Ok(Poll::Ready(out)) => {
                                        fut = None;
                                        let _ = rtx.send(Reply::Done(match out {
                                            Ok(v) => End::Ok(v),
                                            Err(e) => End::Err(e),
                                        }));
                                        break;
                                    }
                                    Err(e) => {
                                        let loc = LAST_PANIC_LOC
                                            .with(|c| c.borrow_mut().take())
                                            .unwrap_or_default();
                                        let msg = format!("{} at {}", panic_message(e), loc);
                                        // the future is poisoned; leak it rather than run its drop glue
                                        std::mem::forget(fut.take());
                                        let _ = rtx.send(Reply::Done(End::Panic(msg)));
                                        break;
                                    }
                                }
                            }
                        }
                    }
                    drop(fut);
                }
                polytune::verif::set_hooks(None);
                let probes = hooks.probes.borrow().clone();
                PartyReport {
                    probes,
                    alloc: crate::alloc::stats(),
                    tap_fired: hooks.fired.get(),
                    drawn: entropy::drawn(),
                }
            })
            .expect("spawn party thread");
        handles.push(Some(h));
    }

    let mut ends: Vec<Option<End>> = (0..n).map(|_| None).collect();
    let mut end_step: Vec<Option<u64>> = vec![None; n];
    if let Some(c) = scripted {
        ends[c] = Some(End::Scripted);
    }
    let mut sched = Scheduler::new(&cfg.sched, n);
    let mut events: Vec<EvRec> = vec![];
    let mut decisions: Vec<String> = vec![];
    let mut steps = 0u64;
    let mut polls = 0u64;
    let mut deliveries = 0u64;
    let mut deadlock = None;
    let mut step_limit = false;
    let mut sched_hash = 0u64;
    let mut progress_hash = 0u64;
    let mut prefix_identical = None;

    // scripted replay cursor
    let reference = cfg.scripted.as_ref().map(|s| s.1.clone());
    let mut ref_pos = 0usize;
    let mut script_open = scripted.is_some();
    // per sender: number of messages the scripted party consumed so far; whether anything it consumed
    // differed from the reference run
    let mut script_recv_ctr = vec![0usize; n];
    let mut script_diverged = false;

    let alive = |ends: &Vec<Option<End>>, p: usize| ends[p].is_none();

    loop {
        if (0..n).all(|p| !alive(&ends, p)) {
            break;
        }
        if steps as usize >= cfg.max_steps {
            step_limit = true;
            break;
        }
        // ---- choose the next event
        let mut chosen: Option<Ev> = None;
        let mut script_ops: Option<Vec<Op>> = None;
        if script_open {
            let re = reference.as_ref().unwrap();
            if ref_pos < re.events.len() {
                let er = &re.events[ref_pos];
                ref_pos += 1;
                match &er.ev {
                    Ev::Poll(p) if Some(*p) == scripted => {
                        script_ops = Some(er.ops.clone());
                    }
                    Ev::Poll(p) => {
                        if alive(&ends, *p) && flags[*p].0.load(Ordering::SeqCst) {
                            chosen = Some(Ev::Poll(*p));
                        } else {
                            continue;
                        }
                    }
                    Ev::Deliver(a, b) => {
                        let ok = !net.lock().unwrap().links[a * n + b].in_flight.is_empty();
                        if ok {
                            chosen = Some(er.ev.clone());
                        } else {
                            continue;
                        }
                    }
                }
            } else {
                // script exhausted: the scripted party's endpoints close
                script_open = false;
                net.lock().unwrap().close(scripted.unwrap());
                continue;
            }
        }
        if chosen.is_none() && script_ops.is_none() {
            let mut enabled: Vec<Ev> = vec![];
            for p in 0..n {
                if alive(&ends, p) && flags[p].0.load(Ordering::SeqCst) {
                    enabled.push(Ev::Poll(p));
                }
            }
            for (a, b) in net.lock().unwrap().deliverable() {
                enabled.push(Ev::Deliver(a, b));
            }
            if enabled.is_empty() {
                let g = net.lock().unwrap();
                deadlock = Some(g.blocked_description());
                break;
            }
            let i = sched.pick(&enabled, n);
            chosen = Some(enabled[i].clone());
        }
        steps += 1;
        net.lock().unwrap().step = steps;

        // ---- execute it
        if let Some(ops) = script_ops {
            let c = scripted.unwrap();
            let re = reference.as_ref().unwrap();
            let mut g = net.lock().unwrap();
            for op in &ops {
                match op {
                    Op::Send(tr) => {
                        let m = &re.transcript[*tr];
                        if !m.enqueued && m.orig.is_none() {
                            // was swallowed by a closed endpoint in the reference run; still send
                        }
                        let before = g.first_fault_at;
                        let data = m.orig.clone().unwrap_or_else(|| m.data.clone());
                        let tlen = g.transcript.len();
                        g.enqueue(c, m.to, &m.phase, data);
                        if script_diverged {
                            for t in g.transcript[tlen..].iter_mut() {
                                t.counterfactual = true;
                            }
                        }
                        if before.is_none() && g.first_fault_at.is_some() {
                            // compare prefix with the reference
                            let same = tlen <= re.transcript.len()
                                && g.transcript[..tlen]
                                    .iter()
                                    .zip(re.transcript.iter())
                                    .all(|(a, b)| {
                                        a.from == b.from && a.to == b.to && a.idx == b.idx && a.data == b.data
                                    });
                            prefix_identical = Some(same);
                        }
                    }
                    Op::Recv { from } => {
                        let li = from * n + c;
                        let got = match g.links[li].inbox.pop_front() {
                            Some(t) => Some(t),
                            None => g.links[li].in_flight.pop_front(),
                        };
                        let k = script_recv_ctr[*from];
                        script_recv_ctr[*from] += 1;
                        let expected = re.transcript.iter().find(|m| m.from == *from && m.to == c && m.idx == k);
                        let same = match (got, expected) {
                            (Some(t), Some(e)) => g.transcript[t].data == e.data,
                            _ => false,
                        };
                        if !same {
                            script_diverged = true;
                        }
                        if let Some(w) = g.links[li].send_waker.take() {
                            w.wake();
                        }
                    }
                }
            }
            decisions.push(format!("S{c}"));
            continue;
        }
        let ev = chosen.unwrap();
        decisions.push(ev.label());
        sched_hash = entropy::fnv(sched_hash, ev.label().as_bytes());
        match ev {
            Ev::Deliver(a, b) => {
                net.lock().unwrap().deliver(a, b);
                deliveries += 1;
                if cfg.record_events {
                    events.push(EvRec { ev, ops: vec![] });
                }
            }
            Ev::Poll(p) => {
                polls += 1;
                flags[p].0.store(false, Ordering::SeqCst);
                net.lock().unwrap().cur_ops.clear();
                cmd_tx[p].as_ref().unwrap().send(Cmd::Poll).expect("party thread alive");
                let reply = rep_rx[p].as_ref().unwrap().recv().expect("party thread replies");
                let (ops, crash_now) = {
                    let mut g = net.lock().unwrap();
                    let ops = std::mem::take(&mut g.cur_ops);
                    (ops, g.crash_pending[p])
                };
                if !ops.is_empty() {
                    progress_hash = entropy::fnv(progress_hash, &[p as u8, ops.len() as u8]);
                }
                if cfg.record_events {
                    events.push(EvRec { ev, ops });
                }
                match reply {
                    Reply::Pending => {
                        if crash_now {
                            cmd_tx[p].as_ref().unwrap().send(Cmd::Drop).unwrap();
                            let _ = rep_rx[p].as_ref().unwrap().recv();
                            ends[p] = Some(End::Crashed);
                            end_step[p] = Some(steps);
                            let mut g = net.lock().unwrap();
                            g.close(p);
                            *g.fired.entry("crash".into()).or_insert(0) += 1;
                        }
                    }
                    Reply::Done(e) => {
                        ends[p] = Some(e);
                        end_step[p] = Some(steps);
                        net.lock().unwrap().close(p);
                    }
                }
            }
        }
    }

    // wind down: drop the futures of parties that are still blocked
    for p in 0..n {
        if ends[p].is_none() {
            if let Some(tx) = &cmd_tx[p] {
                let _ = tx.send(Cmd::Drop);
                let _ = rep_rx[p].as_ref().unwrap().recv();
            }
            ends[p] = Some(End::Blocked);
        }
    }
    drop(cmd_tx);
    let mut probes = vec![];
    let mut alloc = vec![];
    let mut tap_fired = 0;
    let mut entropy_drawn = vec![];
    for h in handles {
        match h {
            Some(h) => {
                let r = h.join().expect("party thread joins");
                probes.push(r.probes);
                alloc.push(r.alloc);
                tap_fired += r.tap_fired;
                entropy_drawn.push(r.drawn);
            }
            None => {
                probes.push(vec![]);
                alloc.push((0, 0));
                entropy_drawn.push(0);
            }
        }
    }
    let mut g = net.lock().unwrap();
    if prefix_identical.is_none()
        && let (Some(at), Some(re)) = (g.first_fault_at, reference.as_ref())
    {
        let same = at <= re.transcript.len()
            && g.transcript[..at]
                .iter()
                .zip(re.transcript.iter())
                .all(|(a, b)| a.from == b.from && a.to == b.to && a.idx == b.idx && a.data == b.data);
        prefix_identical = Some(same);
    }
    RunResult {
        ends: ends.into_iter().map(|e| e.unwrap()).collect(),
        transcript: std::mem::take(&mut g.transcript),
        recvs: std::mem::take(&mut g.recvs),
        events,
        decisions,
        steps,
        polls,
        deliveries,
        deadlock,
        step_limit,
        monitor: std::mem::take(&mut g.monitor),
        chan_ops: g.chan_ops.clone(),
        probes,
        alloc,
        fired: g.fired.clone(),
        tap_fired,
        entropy_drawn,
        prefix_identical,
        sched_hash,
        progress_hash,
        end_step,
    }
}

impl RunResult {
    pub fn transcript_hash(&self) -> u64 {
        let mut h = 0;
        for m in &self.transcript {
            h = entropy::fnv(h, &[m.from as u8, m.to as u8]);
            h = entropy::fnv(h, m.phase.as_bytes());
            h = entropy::fnv(h, &m.data);
        }
        h
    }
    pub fn reference(self) -> Arc<Reference> {
        Arc::new(Reference {
            events: self.events,
            transcript: self.transcript,
        })
    }
}
