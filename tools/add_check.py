#!/usr/bin/env python3
"""add_check.py <id> <engine> <level> <technique> <text> <note>: add/replace a check in tools/checks.json, drop it from not_applicable, regenerate MANIFEST."""
import json, sys, subprocess
pid, engine, level, technique, text, note = sys.argv[1:7]
p='/verif/tools/checks.json'; d=json.load(open(p))
d['checks']=[c for c in d['checks'] if c['id']!=pid]
d['checks'].append({"id":pid,"engine":engine,"level":level,"design_ref":f"DESIGN.md 4/{pid}","technique":technique,"text":text,"note":note})
d['checks'].sort(key=lambda c:c['id'])
d['not_applicable']=[x for x in d['not_applicable'] if x['property_id']!=pid]
for e in d['engines']:
    if e['name']==engine and pid not in e['serves_properties']:
        e['serves_properties'].append(pid); e['serves_properties'].sort()
json.dump(d,open(p,'w'),indent=1)
subprocess.check_call(['python3-vt','/verif/tools/gen_manifest.py'])
