import json,glob,re,subprocess,sys,os
ids=sys.argv[1:]
props={}
for l in open('/verif/properties.jsonl'):
    d=json.loads(l); props[d['id']]=d
for pid in ids:
    touched=set(); needs=[]
    for d in sorted(glob.glob(f'/verif/seeded/{pid}-*')):
        for m in re.finditer(r'^\+\+\+ b/(.+)$', open(d+'/patch.diff').read(), re.M):
            touched.add(m.group(1))
        try: needs.append(json.load(open(d+'/meta.json'))['needs_to_manifest'])
        except Exception: pass
    anchors=props[pid]['anchors']['files']
    unt=[a for a in anchors if a not in touched and 'examples/' not in a]
    extra="IMPORTANT: do NOT copy /repo/target (disk space is limited; ignore the remark about copying it) - build inside the worktree and only the packages you need. Earlier seeded changes for this property needed, in order to manifest: " + "; ".join(f"({i+1}) {n}" for i,n in enumerate(needs)) + ". Yours must be different in kind: a different mechanism, code location and trigger."
    if unt:
        extra += " The earlier changes were all in " + ", ".join(sorted(touched)) + "; place yours in a different file if you can - for example one of: " + ", ".join(unt) + " (or any other file of the workspace that the property depends on)."
    wt=f'/tmp/wt-r7-{pid}'
    subprocess.run(['git','-C','/repo','worktree','add','--detach',wt,'HEAD'],capture_output=True)
    out=subprocess.check_output(['python3','/verif/tools/agent_prompt.py',pid,wt,extra],text=True)
    open(wt+'/TASK.md','w').write(out)
    print('ok',pid,len(out))
